// C04: the XSS filter's tokenising kernels (src/xss.cpp), real code.  The rule tables
// (std::map/std::set, regex functors) and the output assembly are outside the encoding; what is
// decided here is that the structured view the rules are applied to accounts for every byte:
//   a  split_to_parts   tiles the input; '<' '>' '&' never end up in a plain-text part; tag / entity /
//                       comment parts are self-delimited
//   b  parse_part(tag)  every byte of an accepted tag is tag name, property name, '=', quotes, a
//                       checked value, a space or the closing '/'
//   c  validate_property_value  <=>  no '<' '>' and every '&' starts one of the eight entities
//   d  parse_part(entity)       accepted => &alnum+; or a well-formed numeric reference to a legal char
//   e  uri_parser::parse        accepted => URI alphabet only, and a browser-visible scheme prefix is
//                               exactly the range handed to the scheme check
#include "verif_std.h"
#define private public
#define protected public
#include "src/xss.cpp"
#undef private
#undef protected
#include "verif.h"

using namespace cppcms::xss;

static unsigned char *sym_buffer(unsigned n)
{
    unsigned char *p = (unsigned char *)malloc(n ? n : 1);
    for (unsigned i = 0; i < n; i++) p[i] = nondet_u8();
    return p;
}

static bool r_alpha(unsigned char c) { return (c >= 'a' && c <= 'z') || (c >= 'A' && c <= 'Z'); }
static bool r_digit(unsigned char c) { return c >= '0' && c <= '9'; }
static bool r_alnum(unsigned char c) { return r_alpha(c) || r_digit(c); }
static bool r_xdigit(unsigned char c) { return r_digit(c) || (c >= 'a' && c <= 'f') || (c >= 'A' && c <= 'F'); }
static bool r_space(unsigned char c) { return c == ' ' || c == '\t' || c == '\r' || c == '\n'; }

static bool r_starts(const unsigned char *b, unsigned i, unsigned n, const char *lit)
{
    unsigned k = 0;
    for (; lit[k]; k++)
        if (i + k >= n || b[i + k] != (unsigned char)lit[k]) return false;
    return true;
}
// the eight character references a property value may contain (straight-line on purpose: this oracle
// is evaluated at every byte of every value and loops here dominated the formula)
#define R_AT(k, c) (b[i + (k)] == (unsigned char)(c))
static bool r_value_entity(const unsigned char *b, unsigned i, unsigned n)
{
    unsigned m = n - i; // bytes available from the '&'
    if (m >= 4 && R_AT(2, 't') && R_AT(3, ';') && (R_AT(1, 'l') || R_AT(1, 'g'))) return true;               // &lt; &gt;
    if (m >= 5 && R_AT(1, 'a') && R_AT(2, 'm') && R_AT(3, 'p') && R_AT(4, ';')) return true;                  // &amp;
    if (m >= 5 && R_AT(1, '#') && R_AT(2, '3') && R_AT(3, '9') && R_AT(4, ';')) return true;                  // &#39;
    if (m >= 6 && R_AT(1, 'q') && R_AT(2, 'u') && R_AT(3, 'o') && R_AT(4, 't') && R_AT(5, ';')) return true;  // &quot;
    if (m >= 6 && R_AT(1, 'a') && R_AT(2, 'p') && R_AT(3, 'o') && R_AT(4, 's') && R_AT(5, ';')) return true;  // &apos;
    if (m >= 6 && R_AT(1, '#') && (R_AT(2, 'x') || R_AT(2, 'X')) && R_AT(3, '2') && R_AT(4, '7') && R_AT(5, ';')) return true; // &#x27; &#X27;
    return false;
}
static bool r_value_ok(const unsigned char *b, unsigned from, unsigned to)
{
    for (unsigned i = from; i < to; i++) {
        if (b[i] == '<' || b[i] == '>') return false;
        if (b[i] == '&' && !r_value_entity(b, i, to)) return false;
    }
    return true;
}

// ---------------------------------------------------------------- C04.c
extern "C" void h_c04c_property_value()
{
    unsigned n = verif_param(0);
    unsigned char *in = sym_buffer(n);
    bool r = validate_property_value((char const *)in, (char const *)in + n);
    bool expect = r_value_ok(in, 0, n);
    if (r) CHECKM(expect, "accepted property value contains '<', '>' or a '&' that does not start an allowed entity");
    else CHECKM(!expect, "harmless property value rejected");
    if (r) WITNESS("value accepted"); else WITNESS("value rejected");
    free(in);
}

// ---------------------------------------------------------------- C04.a
// The part list is observed through a recorder: in the symbolic build std::vector<entry>::push_back is
// replaced by a stub that hands (begin,end,type) of the pushed entry to verif_record_part (libstdc++'s
// vector of a 72-byte class with a nested vector is what made this obligation unreachable: 360 000
// symex steps for one input byte); the native build copies the same triples out of the real vector.
static char const *rec_b[12], *rec_e[12];
static int rec_t[12];
static unsigned rec_n;
extern "C" void verif_record_part(char const *b, char const *e, int t)
{
    if (rec_n < 12) { rec_b[rec_n] = b; rec_e[rec_n] = e; rec_t[rec_n] = t; }
    rec_n++;
}
extern "C" void h_c04a_split()
{
    unsigned n = verif_param(0);
    unsigned char *in = sym_buffer(n);
    std::vector<entry> *parts = new std::vector<entry>();
    rec_n = 0;
    split_to_parts((char const *)in, (char const *)in + n, *parts);
#ifdef VERIF_NATIVE
    for (unsigned k = 0; k < parts->size(); k++) verif_record_part((*parts)[k].begin, (*parts)[k].end, (*parts)[k].type);
#endif
    unsigned np = rec_n;
    CHECKM(np <= n, "more parts than bytes");
    unsigned pos = 0;
    bool saw_tag = false, saw_comment = false, saw_entity = false;
    // one pass over the bytes, k = the part the byte belongs to
    unsigned k = 0, b = 0, t = 0;
    int ty = invalid_data;
    for (unsigned i = 0; i < n; i++) {
        if (i == t) { // first byte of the next part
            CHECKM(k < np && k < 12, "input bytes after the last part");
            CHECKM(rec_b[k] == (char const *)in + i, "parts do not tile the input (gap or overlap)");
            CHECKM(rec_e[k] > rec_b[k] && rec_e[k] <= (char const *)in + n, "empty part or part beyond the input");
            b = i; t = (unsigned)(rec_e[k] - (char const *)in); ty = rec_t[k]; k++;
            CHECKM(ty == plain_text || ty == html_entity || ty == html_tag || ty == html_comment || ty == invalid_data, "unexpected part type from split_to_parts");
        }
        unsigned char c = in[i];
        if (ty == plain_text) CHECKM(c != '<' && c != '>' && c != '&', "markup character inside a plain-text part");
        else if (ty == html_entity) {
            if (i == b) CHECKM(c == '&', "entity part does not start with &");
            if (i + 1 == t) CHECKM(c == ';' && t - b >= 2, "entity part does not end with ;");
            else CHECKM(c != ';', "entity part extends past its first ';'");
            saw_entity = true;
        } else if (ty == html_tag) {
            if (i == b) CHECKM(c == '<', "tag part does not start with <");
            if (i + 1 == t) CHECKM(c == '>' && t - b >= 2, "tag part does not end with >");
            else CHECKM(c != '>', "tag part extends past its first '>'");
            saw_tag = true;
        } else if (ty == html_comment) {
            CHECKM(t - b >= 7, "comment part shorter than <!---->");
            if (i == b) CHECKM(c == '<', "comment part does not start with <!--");
            else if (i == b + 1) CHECKM(c == '!', "comment part does not start with <!--");
            else if (i == b + 2 || i == b + 3) CHECKM(c == '-', "comment part does not start with <!--");
            else if (i + 3 < t) {
                CHECKM(c != '<' && c != '>' && c != '&', "markup character inside a comment");
            } else if (i + 3 == t || i + 2 == t) CHECKM(c == '-', "comment part does not end with -->");
            else CHECKM(c == '>', "comment part does not end with -->");
            saw_comment = true;
        }
        pos = i + 1;
    }
    CHECKM(pos == n && t == n && k == np, "parts do not cover the input exactly");
    if (saw_tag) WITNESS("tag part");
    if (saw_comment) WITNESS("comment part");
    if (saw_entity) WITNESS("entity part");
    if (np == 1) WITNESS("one part");
    if (np >= 2) WITNESS("two parts");
    if (np == 0) WITNESS("empty");
    VERIF_END();
}

// ---------------------------------------------------------------- C04.b
// part = '<' content '>' where content has no '>' (what split_to_parts hands over, C04.a)
extern "C" void h_c04b_parse_tag()
{
    unsigned n = verif_param(0);
    unsigned char *buf = (unsigned char *)malloc(n + 2);
    buf[0] = '<';
    for (unsigned i = 0; i < n; i++) { buf[1 + i] = nondet_u8(); ASSUME(buf[1 + i] != '>'); }
    buf[n + 1] = '>';
    unsigned total = n + 2;
    entry *e = new entry((char const *)buf, (char const *)buf + total, html_tag);
    // capacity only (the list stays empty): libstdc++'s vector reallocation is not the subject and is
    // cut; reaching it would be reported as a bound, not as success
    e->tag.properties.reserve(8);
    parse_part(*e);
    if (e->type == invalid_data) { WITNESS("tag rejected"); VERIF_END(); return; }
#ifdef VERIF_NOPOST
    WITNESS("accepted"); VERIF_END(); return;
#endif
    CHECKM(e->type == open_tag || e->type == close_tag || e->type == open_and_close_tag, "unexpected type after parse_part");
    char const *base = (char const *)buf;
    CHECKM(e->tag.tag_begin >= base + 1 && e->tag.tag_end > e->tag.tag_begin && e->tag.tag_end <= base + total - 1, "tag name range outside the part");
    unsigned tb = e->tag.tag_begin - base, te = e->tag.tag_end - base;
    bool closing = e->type == close_tag, selfclosing = e->type == open_and_close_tag;
    if (closing) CHECKM(buf[1] == '/' && tb == 2, "closing tag name does not follow </");
    else CHECKM(tb == 1, "tag name does not follow <");
    if (selfclosing) CHECKM(buf[total - 2] == '/' && te <= total - 2, "self-closing tag without /");
    unsigned np = e->tag.properties.size();
    CHECKM(np <= 8 && np <= n, "more properties than bytes");
    if (closing) CHECKM(np == 0, "closing tag with properties");
    // the property list as offsets, in order, inside the part
    unsigned PB[8], PE[8], VE[8], END[8];
    bool HV[8];
    unsigned last = te;
    for (unsigned k = 0; k < np; k++) {
        property_data &p = e->tag.properties[k];
        CHECKM(p.property_begin >= base + last && p.property_end > p.property_begin && p.property_end <= base + total - 1, "property name range out of order or outside the part");
        PB[k] = p.property_begin - base; PE[k] = p.property_end - base;
        HV[k] = p.value_begin != 0;
        if (HV[k]) {
            CHECKM(p.value_begin == base + PE[k] + 2 && p.value_end >= p.value_begin && p.value_end < base + total - 1, "value range does not follow name=quote or leaves the part");
            VE[k] = p.value_end - base; END[k] = VE[k] + 1;
        } else {
            CHECKM(p.value_end == 0, "value_end without value_begin");
            VE[k] = 0; END[k] = PE[k];
        }
        last = END[k];
    }
    // one pass over the bytes between '<' and '>': each is accounted for by the structured view
    unsigned k = 0;
    bool saw_value = false, saw_boolean = false;
    for (unsigned i = 1; i + 1 < total; i++) {
        unsigned char c = buf[i];
        if (closing && i == 1) continue; // the '/' checked above
        if (i >= tb && i < te) {
            if (i == tb) CHECKM(r_alpha(c) || c == '_', "tag name does not start with a letter");
            else CHECKM(r_alnum(c), "tag name contains a non-alphanumeric byte");
            continue;
        }
        if (k < np && i >= END[k]) k++; // a property is at least one byte long: at most one ends per byte
        if (k < np && i >= PB[k]) {
            if (i < PE[k]) {
                if (i == PB[k]) CHECKM(r_alpha(c) || c == '_', "property name does not start with a letter");
                else CHECKM(r_alnum(c), "property name contains a non-alphanumeric byte");
                if (!HV[k]) saw_boolean = true;
            } else {
                // only valued properties extend beyond their name
                unsigned char q = buf[PE[k] + 1];
                if (i == PE[k]) CHECKM(c == '=', "value is not introduced by =");
                else if (i == PE[k] + 1) CHECKM(c == '"' || c == '\'', "value is not quoted");
                else if (i < VE[k]) {
                    CHECKM(c != q, "value contains its own quote");
                    CHECKM(c != '<' && c != '>', "accepted value contains '<' or '>'");
                    if (c == '&') CHECKM(r_value_entity(buf, i, VE[k]), "accepted value contains a bare '&'");
                } else CHECKM(c == q, "value is not closed by the quote that opened it");
                saw_value = true;
            }
            continue;
        }
        if (selfclosing && i == total - 2) continue; // the '/' checked above
        CHECKM(r_space(c), "byte of an accepted tag is not accounted for by name, property, value or space");
    }
    CHECKM(np == 0 || k + 1 >= np, "property list longer than the text it was cut from");
    if (saw_value) WITNESS("property with value");
    if (saw_boolean) WITNESS("boolean property");
    if (closing) WITNESS("close tag");
    if (selfclosing) WITNESS("self closing");
    if (e->type == open_tag) WITNESS("open tag");
    VERIF_END();
}

// ---------------------------------------------------------------- C04.d
// part = '&' content ';' where content has no ';'
extern "C" void h_c04d_parse_entity()
{
    unsigned n = verif_param(0);
    unsigned char *buf = (unsigned char *)malloc(n + 3);
    buf[0] = '&';
    for (unsigned i = 0; i < n; i++) { buf[1 + i] = nondet_u8(); ASSUME(buf[1 + i] != ';'); }
    buf[n + 1] = ';';
    buf[n + 2] = nondet_u8(); // whatever follows the part in the input (strtol may look at it)
    unsigned total = n + 2;
    entry *e = new entry((char const *)buf, (char const *)buf + total, html_entity);
    parse_part(*e);
    if (e->type == invalid_data) { WITNESS("entity rejected"); VERIF_END(); return; }
    if (e->type == html_entity) {
        CHECKM(n >= 1, "empty entity name accepted");
        for (unsigned i = 1; i <= n; i++) CHECKM(r_alnum(buf[i]), "entity name contains a non-alphanumeric byte");
        CHECKM(e->tag.tag_begin == (char const *)buf + 1 && e->tag.tag_end == (char const *)buf + 1 + n, "entity name range is not the text between & and ;");
        WITNESS("named entity");
    } else {
        CHECKM(e->type == html_numeric_entity, "unexpected type after parse_part");
        CHECKM(n >= 2 && buf[1] == '#', "numeric entity without #digits");
        bool hex = buf[2] == 'x' || buf[2] == 'X';
        unsigned from = hex ? 3 : 2;
        CHECKM(from <= n, "numeric entity without digits");
        unsigned long v = 0;
        for (unsigned i = from; i <= n; i++) {
            CHECKM(hex ? r_xdigit(buf[i]) : r_digit(buf[i]), "numeric entity with a non-digit");
            unsigned d = r_digit(buf[i]) ? buf[i] - '0' : (buf[i] | 0x20) - 'a' + 10;
            v = v * (hex ? 16 : 10) + d;
            if (v > 0x110000) v = 0x110000;
        }
        CHECKM(v <= 0x10FFFF, "numeric entity beyond U+10FFFF accepted");
        CHECKM(v >= 0x20 || v == 9 || v == 10 || v == 13, "numeric entity for a C0 control character accepted");
        CHECKM(!(v >= 0x7F && v <= 0x9F), "numeric entity for DEL or a C1 control character accepted");
        CHECKM(v != 0xFFFE && v != 0xFFFF, "numeric entity for a non-character accepted");
        if (hex) WITNESS("hex entity"); else WITNESS("decimal entity");
    }
    VERIF_END();
}

// ---------------------------------------------------------------- C04.e
static bool r_uri_char(unsigned char c)
{
    if (r_alnum(c)) return true;
    switch (c) {
    case '-': case '.': case '_': case '~':                                   // unreserved
    case ':': case '/': case '?': case '#': case '[': case ']': case '@':     // gen-delims
    case '!': case '$': case '(': case ')': case '*': case '+': case ',': case ';': case '=': case '\'': // sub-delims
    case '%': case '&':
        return true;
    }
    return false;
}
extern "C" void h_c04e_uri()
{
    unsigned n = verif_param(0);
    unsigned char *in = sym_buffer(n);
    uri_parser *p = new uri_parser((char const *)in, (char const *)in + n);
    bool ok = p->parse();
    if (!ok) { WITNESS("uri rejected"); VERIF_END(); return; }
    for (unsigned i = 0; i < n; i++) {
        CHECKM(r_uri_char(in[i]), "accepted URI contains a byte outside the RFC 3986 alphabet");
        if (in[i] == '&') CHECKM(r_starts(in, i, n, "&amp;") || r_starts(in, i, n, "&apos;"), "accepted URI contains a bare '&'");
        if (in[i] == '%') CHECKM(i + 2 < n && r_xdigit(in[i + 1]) && r_xdigit(in[i + 2]), "accepted URI contains '%' without two hex digits");
    }
    // what a browser takes for the scheme: ALPHA *(ALPHA / DIGIT / + - .) ':'
    unsigned k = 0;
    bool browser_scheme = false;
    if (n > 0 && r_alpha(in[0])) {
        k = 1;
        while (k < n && (r_alnum(in[k]) || in[k] == '+' || in[k] == '-' || in[k] == '.')) k++;
        browser_scheme = k < n && in[k] == ':';
    }
    if (p->has_scheme()) {
        CHECKM(browser_scheme, "parser reports a scheme where there is none");
        CHECKM(p->scheme_begin() == (char const *)in && p->scheme_end() == (char const *)in + k, "scheme range handed to the scheme check is not the text before the first ':'");
        WITNESS("absolute uri");
    } else {
        CHECKM(!browser_scheme, "URI accepted as relative although it starts with scheme:");
        WITNESS("relative uri");
    }
    VERIF_END();
}

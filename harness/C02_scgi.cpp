// C02 / C01: SCGI header block walk (src/scgi_api.cpp, scgi::on_headers_chunk_read), real code.
// The connection object is raw storage with buffer_, sep_ and pool_ constructed; env_.add is a
// recorder (models/stubs_c02.c); the completion handler records the error code it receives.
#include "verif_std.h"
#define private public
#define protected public
#include "src/scgi_api.cpp"
#undef private
#undef protected
#include "verif.h"

typedef cppcms::impl::cgi::scgi scgi;
static unsigned g_calls; static int g_err;
struct rec_handler {
    void operator()(booster::system::error_code const &e) const { g_calls++; g_err = e.value(); }
};
static unsigned char g_keys[4][8], g_vals[4][8]; static unsigned g_kn[4], g_vn[4], g_pairs;
#ifdef VERIF_NATIVE
#define NATIVE_PAIRS(conn, K0, KL0) do { g_pairs = 0; for (cppcms::impl::string_map::iterator it = (conn)->env_.begin(); it != (conn)->env_.end(); ++it) g_pairs++; \
    std::string k0((char const *)(K0), (KL0)); char const *v0 = (conn)->env_.get(k0.c_str()); char const *v1 = (conn)->env_.get("x"); \
    g_kn[0] = (KL0); for (unsigned i = 0; i < (KL0); i++) g_keys[0][i] = (K0)[i]; g_vn[0] = v0 ? strlen(v0) : 99; for (unsigned i = 0; v0 && i < g_vn[0] && i < 8; i++) g_vals[0][i] = v0[i]; \
    g_kn[1] = 1; g_keys[1][0] = 'x'; g_vn[1] = v1 ? strlen(v1) : 99; if (v1 && g_vn[1]) g_vals[1][0] = v1[0]; } while (0)
#else
#define NATIVE_PAIRS(conn, K0, KL0) do { } while (0)
#endif
static unsigned cstrlen_bounded(const unsigned char *p) { unsigned n = 0; while (n < 24 && p[n]) n++; return n; }
extern "C" __attribute__((noinline)) void verif_env_add(unsigned char *k, unsigned char *v)
{
    if (g_pairs < 4) {
        unsigned a = cstrlen_bounded(k), b = cstrlen_bounded(v);
        g_kn[g_pairs] = a; g_vn[g_pairs] = b;
        for (unsigned i = 0; i < a && i < 8; i++) g_keys[g_pairs][i] = k[i];
        for (unsigned i = 0; i < b && i < 8; i++) g_vals[g_pairs][i] = v[i];
    }
    g_pairs++;
}
static scgi *raw_scgi(unsigned n)
{
    static long long raw[(sizeof(scgi) + 7) / 8];
    scgi *s = (scgi *)(void *)raw;
    new (&s->buffer_) std::vector<char>(n);
    new (&s->pool_) cppcms::impl::string_pool(48);
#ifdef VERIF_NATIVE
    new (&s->env_) cppcms::impl::string_map();   // the native build runs the real string_map::add
#endif
    return s;
}

// C02.e: an arbitrary header block never makes the walk read outside buffer_, and the handler
// is called exactly once (with an error or with success).
extern "C" void h_c02e_scgi_walk_safety()
{
    // on_first_read guarantees: buffer_.size() > 16, sep_ < 16, buffer_[sep_] == 0.  The walk only
    // touches buffer_[sep_+1 ..]; that region (R bytes, the last one should be ',') is what matters,
    // so the smallest buffer (17 bytes) with sep_ = 16-R is used and R is enumerated.
    unsigned R = verif_param(0);
    unsigned n = 17;
    scgi *s = raw_scgi(n);
    for (unsigned i = 0; i < n; i++) s->buffer_[i] = (char)nondet_u8();
    unsigned sep = 16 - R;
    s->buffer_[sep] = 0;              // on_first_read replaced ':' by NUL
    s->sep_ = sep;
    g_calls = 0; g_pairs = 0;
    cppcms::impl::cgi::handler h = rec_handler();
    s->on_headers_chunk_read(booster::system::error_code(), 0, h);
    CHECKM(g_calls == 1, "completion handler not called exactly once");
    if (g_err == 0) WITNESS("accepted"); else WITNESS("rejected");
    VERIF_END();
}

// C01.e: a well-formed block "k NUL v NUL ... ," delivers exactly the pairs, in order.
extern "C" void h_c01e_scgi_pairs()
{
    unsigned kl = verif_param(0), vl = verif_param(1);   // lengths of the first pair; second pair is "x" = "y"
    unsigned sep = 2;                                      // "NN:"
    unsigned n = sep + 1 + (kl + 1 + vl + 1) + 4 + 1;
    scgi *s = raw_scgi(n);
    unsigned char k[4], v[4];
    for (unsigned i = 0; i < kl; i++) { k[i] = nondet_u8(); ASSUME(k[i] != 0); }
    for (unsigned i = 0; i < vl; i++) { v[i] = nondet_u8(); ASSUME(v[i] != 0); }
    unsigned p = 0;
    s->buffer_[p++] = '1'; s->buffer_[p++] = '0'; s->buffer_[p++] = 0;
    for (unsigned i = 0; i < kl; i++) s->buffer_[p++] = k[i];
    s->buffer_[p++] = 0;
    for (unsigned i = 0; i < vl; i++) s->buffer_[p++] = v[i];
    s->buffer_[p++] = 0;
    s->buffer_[p++] = 'x'; s->buffer_[p++] = 0; s->buffer_[p++] = 'y'; s->buffer_[p++] = 0;
    s->buffer_[p++] = ',';
    s->sep_ = sep;
    g_calls = 0; g_pairs = 0;
    cppcms::impl::cgi::handler h = rec_handler();
    s->on_headers_chunk_read(booster::system::error_code(), 0, h);
    NATIVE_PAIRS(s, k, kl);
    CHECKM(g_calls == 1 && g_err == 0, "well-formed header block not accepted");
    CHECKM(g_pairs == 2, "number of delivered pairs differs from the encoded one");
    CHECKM(g_kn[0] == kl && g_vn[0] == vl, "first pair lengths differ");
    for (unsigned i = 0; i < kl; i++) CHECKM(g_keys[0][i] == k[i], "first key differs");
    for (unsigned i = 0; i < vl; i++) CHECKM(g_vals[0][i] == v[i], "first value differs");
    CHECKM(g_kn[1] == 1 && g_vn[1] == 1 && g_keys[1][0] == 'x' && g_vals[1][0] == 'y', "second pair differs");
    WITNESS("pairs delivered");
    VERIF_END();
}

// C15.e-g: the std::ostream / std::string output paths of the codecs (src/util.cpp, src/base64.cpp),
// real code over a real std::ostream (libstdc++'s basic_ostream instantiated in this TU) whose
// stream buffer is a recorder.  Each overload must produce byte for byte what the pointer /
// streambuf overload (decided against the specification in C15.a-d) produces.
#include "verif_std.h"
#ifndef VERIF_NATIVE
template class std::basic_ios<char>;
template class std::basic_ostream<char>;
template std::ostream &std::__ostream_insert(std::ostream &, const char *, std::streamsize);
#endif
#define private public
#define protected public
#include "src/util.cpp"
#include "src/base64.cpp"
#undef private
#undef protected
#include "verif.h"

struct rec_buf : public std::streambuf {
    unsigned char data[48];
    unsigned n, limit;
    rec_buf(unsigned lim) : n(0), limit(lim) {}
    virtual int overflow(int c) {
        if (c == EOF) return 0;
        if (n >= limit || n >= sizeof(data)) return EOF;
        data[n++] = (unsigned char)c;
        return c;
    }
    virtual std::streamsize xsputn(char const *s, std::streamsize k) {
        std::streamsize i = 0;
        for (; i < k; i++) {
            if (n >= limit || n >= sizeof(data)) break;
            data[n++] = (unsigned char)s[i];
        }
        return i;
    }
};

static unsigned char *sym_buffer(unsigned n)
{
    unsigned char *p = (unsigned char *)malloc(n ? n : 1);
    for (unsigned i = 0; i < n; i++) p[i] = nondet_u8();
    return p;
}

// C15.e: b64url::encode(begin,end,ostream&) == b64url::encode(begin,end,target)
extern "C" void h_c15e_b64_ostream()
{
    unsigned n = verif_param(0);
    unsigned char *in = sym_buffer(n);
    int es = cppcms::b64url::encoded_size(n);
    unsigned char *enc = (unsigned char *)malloc(es ? es : 1);
    unsigned char *end = cppcms::b64url::encode(in, in + n, enc);
    rec_buf &rb = *new rec_buf(48);
    std::ostream &os = *new std::ostream(&rb);
    cppcms::b64url::encode(in, in + n, os);
    CHECKM(!os.fail(), "stream failed although the sink accepted everything");
    CHECKM(rb.n == (unsigned)(end - enc), "stream form of b64url::encode wrote a different number of characters than the pointer form");
    for (unsigned i = 0; i < rb.n && i < 48; i++) CHECKM(rb.data[i] == enc[i], "stream form of b64url::encode differs from the pointer form");
    WITNESS("compared");
    VERIF_END();
}

// C15.f: util::escape(begin,end,ostream&) == util::escape(begin,end,streambuf&); failbit exactly when the sink failed;
// a stream that is already failed is not written to
extern "C" void h_c15f_escape_ostream()
{
    unsigned n = verif_param(0);
    unsigned char *in = sym_buffer(n);
    // mode per solver instance: 0 accepting sink, 1 stream failed beforehand, 2 sink that accepts nothing
    // (a sink failing after a symbolic number of bytes is C15.a's subject; with two sinks and a
    // std::ostream on top it cost 9 GB for one input byte)
    unsigned mode = verif_param(1);
    unsigned limit = mode == 2 ? 0 : 48;
    bool prefailed = mode == 1;
    rec_buf &ra = *new rec_buf(limit);
    int r = cppcms::util::escape((char const *)in, (char const *)in + n, ra);
    rec_buf &rb = *new rec_buf(limit);
    std::ostream &os = *new std::ostream(&rb);
    if (prefailed) os.setstate(std::ios_base::failbit);
    cppcms::util::escape((char const *)in, (char const *)in + n, os);
    if (prefailed) {
        CHECKM(rb.n == 0, "escape wrote to a stream that had already failed");
        WITNESS("prefailed");
    } else {
        CHECKM(os.fail() == (r != 0), "failbit does not reflect the sink's failure");
        CHECKM(rb.n == ra.n, "ostream form of escape wrote a different number of bytes than the streambuf form");
        for (unsigned i = 0; i < rb.n && i < 48; i++) CHECKM(rb.data[i] == ra.data[i], "ostream form of escape differs from the streambuf form");
        if (r != 0) WITNESS("sink failed"); else WITNESS("compared");
    }
    VERIF_END();
}

// C15.g: util::urlencode(b,e,ostream&) and util::urlencode(std::string) == util::urlencode(b,e,streambuf&)
extern "C" void h_c15g_urlencode_forms()
{
    unsigned n = verif_param(0);
    unsigned char *in = sym_buffer(n);
    rec_buf &ra = *new rec_buf(48);
    int r = cppcms::util::urlencode((char const *)in, (char const *)in + n, ra);
    CHECKM(r == 0, "streambuf form failed on an accepting sink");
    rec_buf &rb = *new rec_buf(48);
    std::ostream &os = *new std::ostream(&rb);
    cppcms::util::urlencode((char const *)in, (char const *)in + n, os);
    CHECKM(rb.n == ra.n, "ostream form of urlencode wrote a different number of bytes than the streambuf form");
    for (unsigned i = 0; i < rb.n && i < 48; i++) CHECKM(rb.data[i] == ra.data[i], "ostream form of urlencode differs from the streambuf form");
    std::string &src = *new std::string((char const *)in, n);
    std::string &s = *new std::string(cppcms::util::urlencode(src));
    CHECKM(s.size() == ra.n, "string form of urlencode has a different length than the streambuf form");
    for (unsigned i = 0; i < s.size() && i < 48; i++) CHECKM((unsigned char)s[i] == ra.data[i], "string form of urlencode differs from the streambuf form");
    WITNESS("compared");
    VERIF_END();
}

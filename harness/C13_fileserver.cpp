// C13: file server path handling (src/internal_file_server.cpp), real code.
#include "verif_std.h"
#define private public
#define protected public
#include "src/internal_file_server.cpp"
#undef private
#undef protected
#include "verif.h"

static unsigned char *sym_buffer(unsigned n)
{
    unsigned char *p = (unsigned char *)malloc(n ? n : 1);
    for (unsigned i = 0; i < n; i++) p[i] = nondet_u8();
    return p;
}

// reference: split on '/', drop "" and ".", ".." pops (never above the root),
// result "/" + join(components, "/")
static unsigned ref_normalize(const unsigned char *in, unsigned n, unsigned char *out)
{
    unsigned cs[12], cl[12], nc = 0; // component start/length stack
    unsigned i = 0;
    while (i <= n) {
        unsigned j = i;
        while (j < n && in[j] != '/') j++;
        unsigned len = j - i;
        if (len == 0 || (len == 1 && in[i] == '.')) { }
        else if (len == 2 && in[i] == '.' && in[i + 1] == '.') { if (nc > 0) nc--; }
        else { cs[nc] = i; cl[nc] = len; nc++; }
        i = j + 1;
    }
    unsigned k = 0;
    out[k++] = '/';
    for (unsigned c = 0; c < nc; c++) {
        if (c) out[k++] = '/';
        for (unsigned t = 0; t < cl[c]; t++) out[k++] = in[cs[c] + t];
    }
    return k;
}

// C13.a: normalize_path == reference normaliser on every path of n bytes
extern "C" void h_c13a_normalize()
{
    unsigned n = verif_param(0);
    unsigned char *in = sym_buffer(n);
    for (unsigned i = 0; i < n; i++) ASSUME(in[i] != 0);
#ifdef VERIF_ALPHABET
    // abstraction for the longer lengths: normalize_path only distinguishes '/', '.' and "anything else"
    for (unsigned i = 0; i < n; i++) ASSUME(in[i] == '/' || in[i] == '.' || in[i] == 'a' || in[i] == 'b');
    ASSUME(n > 0 && in[0] == '/'); // request paths from the HTTP front end start with '/'
#endif
    std::string path((char const *)in, n);
    cppcms::impl::file_server::normalize_path(path);
    unsigned char ref[16];
    unsigned k = ref_normalize(in, n, ref);
    CHECKM(path.size() >= 1 && path[0] == '/', "normalised path does not start with '/'");
    CHECKM(path.size() == k, "normalised path length differs from the reference normaliser");
    for (unsigned i = 0; i < k && i < path.size(); i++)
        CHECKM((unsigned char)path[i] == ref[i], "normalised path differs from the reference normaliser");
    WITNESS("normalised");
    if (k > 1 && k + 3 <= n) WITNESS("shortened");
    free(in);
}

// C13.b: is_file_prefix == whole-component prefix
extern "C" void h_c13b_is_file_prefix()
{
    unsigned np = verif_param(0), nf = verif_param(1);
    unsigned char *p = sym_buffer(np), *f = sym_buffer(nf);
    std::string prefix((char const *)p, np), full((char const *)f, nf);
    bool r = cppcms::impl::is_file_prefix(prefix, full);
    bool is_prefix = np <= nf;
    if (is_prefix) for (unsigned i = 0; i < np; i++) if (p[i] != f[i]) is_prefix = false;
    bool expect = is_prefix && (np == 0 || p[np - 1] == '/' || nf == np || f[np] == '/');
    CHECKM(r == expect, "is_file_prefix differs from the whole-component prefix predicate");
    if (r) WITNESS("prefix"); else WITNESS("not prefix");
    free(p); free(f);
}

// Native runtime for replaying solver counterexamples against the real code.
// Inputs are read from stdin, one unsigned decimal per nondet_*() call, in call order.
#include "verif.h"
#include <stdio.h>
#include <stdlib.h>
#include <string.h>
#include <unistd.h>
static unsigned long long next_in() {
    unsigned long long v = 0;
    if (scanf("%llu", &v) != 1) { printf("INPUT-EXHAUSTED\n"); fflush(stdout); exit(78); }
    return v;
}
extern "C" {
uint32_t verif_param(uint32_t i) noexcept {
    const char *e = getenv("VERIF_PARAMS");
    if (!e) { printf("NO-PARAMS\n"); exit(79); }
    for (uint32_t k = 0; k < i; k++) { e = strchr(e, ','); if (!e) { printf("NO-PARAMS\n"); exit(79); } e++; }
    return (uint32_t)strtoul(e, 0, 10);
}
uint8_t nondet_u8() noexcept { return (uint8_t)next_in(); }
uint16_t nondet_u16() noexcept { return (uint16_t)next_in(); }
uint32_t nondet_u32() noexcept { return (uint32_t)next_in(); }
uint64_t nondet_u64() noexcept { return next_in(); }
bool nondet_bool() noexcept { return next_in() != 0; }
double nondet_double() noexcept { unsigned long long u = next_in(); double d; memcpy(&d, &u, 8); return d; }
void __CPROVER_assume(bool c) noexcept { if (!c) { printf("ASSUME-FAILED\n"); fflush(stdout); exit(77); } }
void verif_assert(bool c, const char *msg) noexcept {
    if (c) return;
    if (strncmp(msg, "WITNESS", 7) == 0) return;
    printf("ASSERTION-FAILED %s\n", msg); fflush(stdout); exit(1);
}
void verif_end() noexcept { printf("RETURNED\n"); fflush(stdout); _exit(0); }
void verif_observe(uint64_t v) noexcept { printf("OBS %llu\n", (unsigned long long)v); }
}
extern "C" void VERIF_ENTRY();
#include <unistd.h>
// _exit: the harness TU and libcppcms.so may both define the unit's globals
// (symbol interposition => constructed/destroyed twice); skip static destructors.
int main() { VERIF_ENTRY(); printf("RETURNED\n"); fflush(stdout); _exit(0); }

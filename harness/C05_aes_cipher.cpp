// C05.b: encrypt-then-MAC session cookies (src/aes_encryptor.cpp: aes_cipher::encrypt/decrypt), real code,
// together with the real constant-time compare hmac_cipher::equal (src/hmac_encryptor.cpp).
// The block cipher (crypto::cbc), the hash (crypto::message_digest) and crypto::hmac are opaque models
// defined here: an arbitrary function of the bytes they are given, recorded so that the harness can say
// *which bytes* were authenticated / decrypted and in which order.  What is decided is the framing:
// size checks, MAC over exactly the cipher text and verified before anything is decrypted, the inner
// length field checked against what is available, and the round trip for every payload length.
// (Unforgeability of HMAC and secrecy of AES-CBC are assumptions, not solver questions.)
#include "verif_std.h"
#define private public
#define protected public
#include "src/hmac_encryptor.cpp"
#include "src/aes_encryptor.cpp"
#undef private
#undef protected
#include "verif.h"

#define VERIF_D 4      // digest size of the model
#define VERIF_BS 4     // block size of the model
#define MAXB 32
static unsigned char g_fed[2][MAXB]; static unsigned g_fed_n[2]; static unsigned char g_dig[2][VERIF_D]; static unsigned g_macs, g_readouts;
static unsigned char g_enc_in[MAXB], g_enc_out[MAXB]; static unsigned g_enc_len, g_enc_calls;
static unsigned char g_dec_out[MAXB]; static void const *g_dec_in; static unsigned g_dec_len, g_dec_calls;
static bool g_inverse;   // decrypt model = inverse of the recorded encrypt call
static bool g_dec_input_matches;

#ifndef VERIF_NATIVE
namespace cppcms { namespace crypto {
key::key() : data_(0), size_(0) {}
key::key(key const &o) : data_(0), size_(o.size_) {}
key::~key() {}
size_t key::size() const { return size_; }
hmac::hmac(std::unique_ptr<message_digest> d, key const &k) : key_(k) { (void)d; if (g_macs < 2) g_fed_n[g_macs] = 0; g_macs++; }
hmac::~hmac() {}
unsigned hmac::digest_size() const { return VERIF_D; }
void hmac::append(void const *p, size_t n)
{
    unsigned m = g_macs - 1;
    for (size_t i = 0; i < n; i++) { if (m < 2 && g_fed_n[m] < MAXB) g_fed[m][g_fed_n[m]] = ((unsigned char const *)p)[i]; if (m < 2) g_fed_n[m]++; }
}
void hmac::readout(void *out)
{
    unsigned m = g_macs - 1;
    for (unsigned i = 0; i < VERIF_D; i++) { unsigned char d = nondet_u8(); if (m < 2) g_dig[m][i] = d; ((unsigned char *)out)[i] = d; }
    g_readouts++;
}
std::unique_ptr<cbc> cbc::create(std::string const &) { return std::unique_ptr<cbc>(); }
std::unique_ptr<message_digest> message_digest::create_by_name(std::string const &) { return std::unique_ptr<message_digest>(); }
}}
struct model_digest : public cppcms::crypto::message_digest {
    virtual unsigned digest_size() const { return VERIF_D; }
    virtual unsigned block_size() const { return 8; }
    virtual void append(void const *, size_t) {}
    virtual void readout(void *) {}
    virtual cppcms::crypto::message_digest *clone() const { return new model_digest(); }
    virtual char const *name() const { return "model"; }
};
struct model_cbc : public cppcms::crypto::cbc {
    virtual unsigned block_size() const { return VERIF_BS; }
    virtual unsigned key_size() const { return 16; }
    virtual void set_key(cppcms::crypto::key const &) {}
    virtual void set_iv(void const *, size_t) {}
    virtual void set_nonce_iv() {}
    virtual void encrypt(void const *in, void *out, unsigned len)
    {
        g_enc_calls++;
        g_enc_len = len;
        for (unsigned i = 0; i < len && i < MAXB; i++) {
            g_enc_in[i] = ((unsigned char const *)in)[i];
            g_enc_out[i] = nondet_u8();
            ((unsigned char *)out)[i] = g_enc_out[i];
        }
    }
    virtual void decrypt(void const *in, void *out, unsigned len)
    {
        g_dec_calls++;
        g_dec_in = in; g_dec_len = len;
        if (g_inverse) {
            g_dec_input_matches = len == g_enc_len;
            for (unsigned i = 0; i < len && i < MAXB; i++) {
                if (((unsigned char const *)in)[i] != g_enc_out[i]) g_dec_input_matches = false;
                ((unsigned char *)out)[i] = g_enc_in[i];
            }
        } else {
            for (unsigned i = 0; i < len && i < MAXB; i++) { g_dec_out[i] = nondet_u8(); ((unsigned char *)out)[i] = g_dec_out[i]; }
        }
    }
};
typedef cppcms::sessions::impl::aes_cipher aes_cipher;
static aes_cipher *raw_cipher()
{
    static long long raw[(sizeof(aes_cipher) + 7) / 8];
    aes_cipher *c = (aes_cipher *)(void *)raw;
    new (&c->cbc_) std::unique_ptr<cppcms::crypto::cbc>(new model_cbc());
    new (&c->digest_) std::unique_ptr<cppcms::crypto::message_digest>(new model_digest());
    c->cbc_key_.size_ = 16; c->cbc_key_.data_ = 0;
    c->mac_key_.size_ = 16; c->mac_key_.data_ = 0;
    return c;
}
static void reset_models() { g_macs = 0; g_readouts = 0; g_enc_calls = 0; g_dec_calls = 0; g_inverse = false; g_dec_input_matches = false; }
#endif

// C05.b: decrypt on an arbitrary cookie body
extern "C" void h_c05b_aes_decrypt()
{
#ifndef VERIF_NATIVE
    unsigned n = verif_param(0);
    aes_cipher *c = raw_cipher();
    unsigned char *buf = (unsigned char *)malloc(n ? n : 1);
    for (unsigned i = 0; i < n; i++) buf[i] = nondet_u8();
    std::string &cipher = *new std::string((char const *)buf, n);
    std::string &plain = *new std::string("?");
    plain.reserve(40);
    reset_models();
    bool ok = c->aes_cipher::decrypt(cipher, plain);
    bool shape = n >= VERIF_D + VERIF_BS && (n - VERIF_D) % VERIF_BS == 0 && (n - VERIF_D) / VERIF_BS >= 2;
    if (!shape) {
        CHECKM(!ok, "cipher text that is not tag + at least two whole blocks accepted");
        CHECKM(g_dec_calls == 0, "ill-sized cipher text handed to the block cipher");
        CHECKM(plain.size() == 1 && plain[0] == '?', "output modified although the cookie was rejected");
        WITNESS("bad size");
        VERIF_END();
    }
    unsigned real = n - VERIF_D;
    CHECKM(g_macs == 1 && g_readouts == 1 && g_fed_n[0] == real, "MAC not computed over exactly the cipher text before the tag");
    for (unsigned i = 0; i < real; i++) CHECKM(g_fed[0][i] == buf[i], "MAC computed over different bytes");
    bool tag_ok = true;
    for (unsigned i = 0; i < VERIF_D; i++) if (buf[real + i] != g_dig[0][i]) tag_ok = false;
    if (!tag_ok) {
        CHECKM(!ok, "cookie accepted although a tag byte differs from the MAC");
        CHECKM(g_dec_calls == 0, "cipher text decrypted before (or without) a successful MAC check");
        CHECKM(plain.size() == 1 && plain[0] == '?', "output modified although the cookie was rejected");
        WITNESS("bad tag");
        VERIF_END();
    }
    CHECKM(g_dec_calls == 1 && g_dec_in == (void const *)cipher.c_str() && g_dec_len == real, "block cipher not applied once to exactly the authenticated bytes");
    unsigned size = 0;
    for (int i = 3; i >= 0; i--) size = (size << 8) | g_dec_out[VERIF_BS + i];
    unsigned avail = real - VERIF_BS - 4;
    if (size > avail) {
        CHECKM(!ok, "inner length larger than the decrypted data accepted");
        CHECKM(plain.size() == 1 && plain[0] == '?', "output modified although the cookie was rejected");
        WITNESS("bad inner length");
    } else {
        CHECKM(ok, "well-formed authenticated cookie rejected");
        CHECKM(plain.size() == size, "payload length differs from the inner length field");
        for (unsigned i = 0; i < size && i < MAXB; i++) CHECKM((unsigned char)plain[i] == g_dec_out[VERIF_BS + 4 + i], "payload differs from the decrypted bytes after the length field");
        WITNESS("accepted");
        if (size == avail) WITNESS("accepted without padding");
    }
#else
    WITNESS("native: model-only obligation");
#endif
    VERIF_END();
}

// C05.b2: encrypt framing and round trip: decrypt(encrypt(p)) == p for every payload length
extern "C" void h_c05b_aes_roundtrip()
{
#ifndef VERIF_NATIVE
    unsigned n = verif_param(0);
    aes_cipher *c = raw_cipher();
    unsigned char p[16];
    for (unsigned i = 0; i < n; i++) p[i] = nondet_u8();
    reset_models();
    std::string &ct = *new std::string(c->aes_cipher::encrypt(std::string((char const *)p, n)));
    unsigned blocks = (n + 4 + VERIF_BS - 1) / VERIF_BS * VERIF_BS + VERIF_BS;
    CHECKM(g_enc_calls == 1 && g_enc_len == blocks, "block cipher not applied once to IV block + length + payload rounded up to whole blocks");
    unsigned sz = 0;
    for (int i = 3; i >= 0; i--) sz = (sz << 8) | g_enc_in[VERIF_BS + i];
    CHECKM(sz == n, "length field differs from the payload length");
    for (unsigned i = 0; i < n; i++) CHECKM(g_enc_in[VERIF_BS + 4 + i] == p[i], "plain text given to the block cipher differs from the payload");
    CHECKM(ct.size() == blocks + VERIF_D, "cookie body is not cipher text + tag");
    for (unsigned i = 0; i < blocks && i < MAXB; i++) CHECKM((unsigned char)ct[i] == g_enc_out[i], "cookie body does not start with the cipher text");
    CHECKM(g_macs == 1 && g_readouts == 1 && g_fed_n[0] == blocks, "MAC not computed over exactly the cipher text");
    for (unsigned i = 0; i < blocks && i < MAXB; i++) CHECKM(g_fed[0][i] == g_enc_out[i], "MAC computed over something else than the cipher text (encrypt-then-MAC)");
    for (unsigned i = 0; i < VERIF_D; i++) CHECKM((unsigned char)ct[blocks + i] == g_dig[0][i], "tag differs from the MAC");
    // load it back: the decrypt model inverts the recorded encryption, the MAC is a function of its input
    g_inverse = true;
    std::string &plain = *new std::string("?");
    plain.reserve(40);
    bool ok = c->aes_cipher::decrypt(ct, plain);
    bool same_msg = g_macs == 2 && g_fed_n[0] == g_fed_n[1];
    for (unsigned i = 0; i < blocks && i < MAXB; i++) if (g_fed[0][i] != g_fed[1][i]) same_msg = false;
    CHECKM(same_msg, "decrypt authenticates different bytes than encrypt did");
    bool same_dig = true;
    for (unsigned i = 0; i < VERIF_D; i++) if (g_dig[0][i] != g_dig[1][i]) same_dig = false;
    ASSUME(same_dig);
    CHECKM(ok, "own cookie rejected");
    CHECKM(g_dec_calls == 1 && g_dec_input_matches, "decrypt hands the block cipher something else than the cipher text encrypt produced");
    CHECKM(plain.size() == n, "round trip changed the payload length");
    for (unsigned i = 0; i < n; i++) CHECKM((unsigned char)plain[i] == p[i], "round trip changed the payload");
    WITNESS("round trip");
#else
    WITNESS("native: model-only obligation");
#endif
    VERIF_END();
}

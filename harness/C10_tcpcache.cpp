// C10: network cache server request decoding (src/tcp_cache_server.cpp), real code.
// The session object is raw storage with only the members its handlers touch
// constructed (data_in_, hin_, hout_, cache_); the cache backend records what it receives.
#include "verif_std.h"
#define private public
#define protected public
#include "src/tcp_cache_server.cpp"
#undef private
#undef protected
#include "verif.h"

using namespace cppcms::impl;
static bool g_stored;
static unsigned char g_key[8], g_val[8], g_trig[2][8];
static unsigned g_key_n, g_val_n, g_ntrig, g_trig_n[2];
static long long g_timeout;
static bool g_have; static unsigned char g_fval[4]; static unsigned g_fval_n; static uint64_t g_gen; static long long g_ftimeout;
static unsigned char g_fkey[8]; static unsigned g_fkey_n;
struct rec_cache : public base_cache {
    virtual bool fetch(std::string const &key, std::string *a, std::set<std::string> *, time_t *to, uint64_t *gen) {
        g_fkey_n = key.size(); for (unsigned i = 0; i < key.size() && i < 8; i++) g_fkey[i] = key[i];
        if (!g_have) return false;
        if (a) *a = std::string((char const *)g_fval, g_fval_n);
        if (to) *to = (time_t)g_ftimeout;
        if (gen) *gen = g_gen;
        return true;
    }
    virtual void store(std::string const &key, std::string const &b, std::set<std::string> const &triggers, time_t timeout, uint64_t const *) {
        g_stored = true;
        g_key_n = key.size(); for (unsigned i = 0; i < key.size() && i < 8; i++) g_key[i] = key[i];
        g_val_n = b.size(); for (unsigned i = 0; i < b.size() && i < 8; i++) g_val[i] = b[i];
        g_ntrig = 0;
        for (std::set<std::string>::const_iterator p = triggers.begin(); p != triggers.end() && g_ntrig < 2; ++p) {
            g_trig_n[g_ntrig] = p->size();
            for (unsigned i = 0; i < p->size() && i < 8; i++) g_trig[g_ntrig][i] = (*p)[i];
            g_ntrig++;
        }
        g_timeout = timeout;
    }
    virtual void rise(std::string const &) {}
    virtual void remove(std::string const &) {}
    virtual void clear() {}
    virtual void stats(unsigned &k, unsigned &t) { k = t = 0; }
    virtual void add_ref() {}
    virtual bool del_ref() { return false; }
};
typedef tcp_cache_service::session session;
static session *raw_session(unsigned n)
{
    static long long raw[(sizeof(session) + 7) / 8];
    session *s = (session *)(void *)raw;
    new (&s->data_in_) std::vector<char>(n);
    new (&s->cache_) booster::intrusive_ptr<base_cache>(new rec_cache());
    return s;
}

// C10.b0: frame validation alone.  The first library call after the validation in store() is
// replaced by a probe (models/stubs_c10.c): reaching it with lengths that do not add up to the
// payload size (computed without wrap-around) is the violation.
static bool g_consistent;
extern "C" __attribute__((noinline)) void verif_passed_validation()
{
    CHECKM(g_consistent, "frame passed validation although key_len+data_len+triggers_len != size (32-bit wrap-around)");
    WITNESS("validation passed");
}
extern "C" void h_c10b_store_validation()
{
    unsigned n = verif_param(0);
    session *s = raw_session(n);
    for (unsigned i = 0; i < n; i++) s->data_in_[i] = (char)nondet_u8();
    s->hin_.opcode = opcodes::store;
    s->hin_.size = n;
    uint32_t kl = nondet_u32(), dl = nondet_u32(), tl = nondet_u32();
    s->hin_.operations.store.key_len = kl;
    s->hin_.operations.store.data_len = dl;
    s->hin_.operations.store.triggers_len = tl;
    s->hout_.opcode = 0xFFFF;
    g_consistent = (uint64_t)kl + dl + tl == n && kl != 0;
    s->store();
    // only the rejecting path returns here
    CHECKM(s->hout_.opcode == opcodes::error, "store() returned without validating or rejecting");
    CHECKM(!g_consistent, "consistent frame rejected");
    WITNESS("rejected");
    VERIF_END();
}

// C10.b: store frame validation: for an arbitrary header and payload, either the frame is
// rejected (opcodes::error) or every range built from the header fields lies inside the payload
// and the backend receives exactly those bytes.
extern "C" void h_c10b_store_frame()
{
    unsigned n = verif_param(0);                 // payload bytes actually received (== hin_.size)
    session *s = raw_session(n);
    for (unsigned i = 0; i < n; i++) s->data_in_[i] = (char)nondet_u8();
    s->hin_.opcode = opcodes::store;
    s->hin_.size = n;
    s->hin_.operations.store.timeout = (int64_t)nondet_u64();
    uint32_t kl = nondet_u32(), dl = nondet_u32(), tl = nondet_u32();
    s->hin_.operations.store.key_len = kl;
    s->hin_.operations.store.data_len = dl;
    s->hin_.operations.store.triggers_len = tl;
    s->hout_.opcode = 0xFFFF;
    // lengths that do not fit the payload are the subject of C10.b0; here they are bounded so that the
    // copy loops stay small (a wrap-around still satisfies this only if it is caught by C10.b0)
    ASSUME(kl <= 8 && dl <= 8 && tl <= 8);
    g_stored = false;
    bool threw = false;
    try { s->store(); } catch (std::exception const &) { threw = true; }
    CHECKM(!threw, "exception escapes the frame handler (sizes taken from the wire used before validation)");
    bool consistent = (uint64_t)kl + dl + tl == n && kl != 0;
    if (!consistent) {
        CHECKM(s->hout_.opcode == opcodes::error && !g_stored, "frame whose lengths do not add up to the payload size was not rejected");
        WITNESS("rejected");
    } else if (s->hout_.opcode == opcodes::done) {
        CHECKM(g_stored && g_key_n == kl && g_val_n == dl, "backend received key/value of different length than announced");
        for (unsigned i = 0; i < kl && i < 8; i++) CHECKM(g_key[i] == (unsigned char)s->data_in_[i], "key bytes differ");
        for (unsigned i = 0; i < dl && i < 8; i++) CHECKM(g_val[i] == (unsigned char)s->data_in_[kl + i], "value bytes differ");
        WITNESS("stored");
    } else {
        CHECKM(s->hout_.opcode == opcodes::error && !g_stored, "unexpected reply opcode");
        WITNESS("bad trigger block");
    }
    VERIF_END();
}

// C10.a: fetch reply / the L1 revalidation primitive: the server answers "uptodate" only when the
// caller asked for revalidation and presented the entry's current generation; otherwise it
// returns exactly the backend's value, generation and deadline; a miss is "no_data".
extern "C" void h_c10a_fetch_reply()
{
    unsigned n = verif_param(0);
    session *s = raw_session(n);
    new (&s->data_out_) std::string();
    for (unsigned i = 0; i < n; i++) s->data_in_[i] = (char)nondet_u8();
    s->hin_.opcode = opcodes::fetch;
    s->hin_.size = n;
    bool reval = nondet_bool();
    uint64_t cur = nondet_u64();
    s->hin_.operations.fetch.transfer_triggers = nondet_bool();
    s->hin_.operations.fetch.transfer_if_not_uptodate = reval;
    s->hin_.operations.fetch.current_gen = cur;
    s->hin_.operations.fetch.key_len = n;
    g_have = nondet_bool();
    g_fval_n = verif_param(1);
    for (unsigned i = 0; i < g_fval_n; i++) g_fval[i] = nondet_u8();
    g_gen = nondet_u64();
    g_ftimeout = (long long)nondet_u64();
    s->hout_.opcode = 0xFFFF;
    s->fetch();
    CHECKM(g_fkey_n == n, "backend consulted with a key of different length");
    for (unsigned i = 0; i < n; i++) CHECKM(g_fkey[i] == (unsigned char)s->data_in_[i], "backend consulted with a different key");
    if (!g_have) { CHECKM(s->hout_.opcode == opcodes::no_data, "miss not reported as no_data"); WITNESS("miss"); }
    else if (reval && cur == g_gen) { CHECKM(s->hout_.opcode == opcodes::uptodate, "current generation not answered with uptodate"); WITNESS("uptodate"); }
    else {
        CHECKM(s->hout_.opcode == opcodes::data, "stale or unconditional fetch not answered with data");
        CHECKM(s->hout_.operations.data.generation == g_gen && (long long)s->hout_.operations.data.timeout == g_ftimeout, "generation/deadline differ from the backend's");
        CHECKM(s->hout_.operations.data.data_len == g_fval_n && s->hout_.size == g_fval_n && s->hout_.operations.data.triggers_len == 0, "reply lengths differ from the value");
        for (unsigned i = 0; i < g_fval_n; i++) CHECKM((unsigned char)s->data_out_[i] == g_fval[i], "reply value differs from the backend's");
        WITNESS("data");
    }
    VERIF_END();
}

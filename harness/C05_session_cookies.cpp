// C05.c: client-side session cookie load/save (src/session_cookies.cpp), real code, together with the
// real base64url codec (src/base64.cpp).  The encryptor is an opaque model (decrypt: arbitrary verdict and
// plain text; encrypt: recorded), session_interface's cookie accessors and the clock are stubs.
// Decided: load succeeds only for a cookie "C" + base64url whose decrypted text carries a deadline that
// is not in the past, returns exactly the bytes after the deadline, and clears the cookie on every
// refusal of a non-empty cookie; save stores deadline || data under the cipher and refuses on_server.
#include "verif_std.h"
#include <time.h>
#define private public
#define protected public
#include "src/base64.cpp"
#include "src/session_cookies.cpp"
#undef private
#undef protected
#include "verif.h"

static unsigned char g_cookie[24]; static unsigned g_cookie_n;
static unsigned char g_set_cookie[48]; static unsigned g_set_cookie_n; static bool g_cookie_set, g_cookie_cleared;
static long long g_now;
static unsigned g_decrypts, g_encrypts;
static unsigned char g_dec_in[24]; static unsigned g_dec_in_n;
static unsigned char g_plain[24]; static unsigned g_plain_n; static bool g_dec_ok;
static unsigned char g_enc_in[24]; static unsigned g_enc_in_n;
static unsigned char g_enc_out[6];

namespace cppcms {
std::string session_interface::get_session_cookie() { return std::string((char const *)g_cookie, g_cookie_n); }
void session_interface::set_session_cookie(std::string const &d) { g_cookie_set = true; g_set_cookie_n = d.size() <= 48 ? d.size() : 48; for (unsigned i = 0; i < g_set_cookie_n; i++) g_set_cookie[i] = d[i]; }
void session_interface::clear_session_cookie() { g_cookie_cleared = true; }
}
#ifndef VERIF_NATIVE
namespace booster { namespace log {
bool logger::should_be_logged(level_type, char const *) { return false; }
logger &logger::instance() { static long long raw[64]; return *(logger *)(void *)raw; }
}}
extern "C" time_t time(time_t *t) { if (t) *t = (time_t)g_now; return (time_t)g_now; }
#endif
struct model_encryptor : public cppcms::sessions::encryptor {
    virtual std::string encrypt(std::string const &plain)
    {
        g_encrypts++;
        g_enc_in_n = plain.size();
        for (unsigned i = 0; i < plain.size() && i < 24; i++) g_enc_in[i] = plain[i];
        for (unsigned i = 0; i < 6; i++) g_enc_out[i] = nondet_u8();
        return std::string((char const *)g_enc_out, 6);
    }
    virtual bool decrypt(std::string const &cipher, std::string &plain)
    {
        g_decrypts++;
        g_dec_in_n = cipher.size();
        for (unsigned i = 0; i < cipher.size() && i < 24; i++) g_dec_in[i] = cipher[i];
        if (!g_dec_ok) return false;
        plain.assign((char const *)g_plain, g_plain_n);
        return true;
    }
};

extern "C" void h_c05c_cookie_load()
{
    unsigned n = verif_param(0);          // cookie length
    unsigned pn = verif_param(1);         // length of the decrypted text
    g_cookie_n = n;
    for (unsigned i = 0; i < n; i++) g_cookie[i] = nondet_u8();
    g_plain_n = pn;
    for (unsigned i = 0; i < pn; i++) g_plain[i] = nondet_u8();
    g_dec_ok = nondet_bool();
    g_now = (long long)nondet_u64();
    g_decrypts = 0; g_cookie_cleared = false; g_cookie_set = false;
    cppcms::sessions::session_cookies &sc = *new cppcms::sessions::session_cookies(std::unique_ptr<cppcms::sessions::encryptor>(new model_encryptor()));
    cppcms::session_interface *si = (cppcms::session_interface *)malloc(16); // only the stubs above are called
    std::string &data = *new std::string("?");
    data.reserve(40);
    time_t t_out = 12345;
    bool r = sc.load(*si, data, t_out);
    // reference
    bool framed = n >= 1 && g_cookie[0] == 'C' && (n - 1) % 4 != 1;
    long long deadline = 0;
    if (pn >= 8) for (int i = 7; i >= 0; i--) deadline = (long long)(((unsigned long long)deadline << 8) | g_plain[i]);
    bool expect = framed && g_dec_ok && pn >= 8 && !(deadline < g_now);
    CHECKM(r == expect, "load verdict differs from: framed cookie, accepted by the cipher, deadline present and not in the past");
    if (n >= 1 && g_cookie[0] != 'C') CHECKM(g_decrypts == 0, "cookie without the 'C' tag handed to the cipher");
    if (r) {
        CHECKM((long long)t_out == deadline, "deadline returned differs from the authenticated one");
        CHECKM(data.size() == pn - 8, "session data length differs from the text after the deadline");
        for (unsigned i = 8; i < pn; i++) CHECKM((unsigned char)data[i - 8] == g_plain[i], "session data differs from the text after the deadline");
        CHECKM(!g_cookie_cleared, "cookie cleared although the session was loaded");
        WITNESS("loaded");
    } else {
        CHECKM(data.size() == 1 && data[0] == '?' && t_out == 12345, "outputs modified although the cookie was refused");
        if (n > 0) CHECKM(g_cookie_cleared, "refused cookie was not cleared");
        if (framed && g_dec_ok && pn >= 8) WITNESS("expired");
        if (framed && !g_dec_ok) WITNESS("rejected by the cipher");
        if (!framed) WITNESS("not framed");
    }
    VERIF_END();
}

extern "C" void h_c05c_cookie_save()
{
    unsigned dn = verif_param(0);
    unsigned char d[8];
    for (unsigned i = 0; i < dn; i++) d[i] = nondet_u8();
    long long to = (long long)nondet_u64();
    bool on_server = nondet_bool();
    g_encrypts = 0; g_cookie_set = false;
    cppcms::sessions::session_cookies &sc = *new cppcms::sessions::session_cookies(std::unique_ptr<cppcms::sessions::encryptor>(new model_encryptor()));
    cppcms::session_interface *si = (cppcms::session_interface *)malloc(16);
    bool thrown = false;
    try { sc.save(*si, std::string((char const *)d, dn), (time_t)to, false, on_server); } catch (cppcms::cppcms_error const &) { thrown = true; }
    CHECKM(thrown == on_server, "cookie backend must refuse (only) data that has to stay on the server");
    if (!thrown) {
        CHECKM(g_encrypts == 1 && g_enc_in_n == dn + 8, "cipher not applied once to deadline + data");
        long long t2 = 0;
        for (int i = 7; i >= 0; i--) t2 = (long long)(((unsigned long long)t2 << 8) | g_enc_in[i]);
        CHECKM(t2 == to, "deadline under the cipher differs from the one given");
        for (unsigned i = 0; i < dn; i++) CHECKM(g_enc_in[8 + i] == d[i], "data under the cipher differs from the data given");
        // 6 cipher bytes -> 'C' + 8 base64url characters that decode back to them
        CHECKM(g_cookie_set && g_set_cookie_n == 9 && g_set_cookie[0] == 'C', "cookie is not 'C' + base64url(cipher text)");
        unsigned char back[8];
        unsigned char *e = cppcms::b64url::decode(g_set_cookie + 1, g_set_cookie + 9, back);
        CHECKM(e == back + 6, "cookie text does not decode to the cipher text length");
        for (unsigned i = 0; i < 6; i++) CHECKM(back[i] == g_enc_out[i], "cookie text does not decode to the cipher text");
        WITNESS("saved");
    } else WITNESS("refused");
    VERIF_END();
}

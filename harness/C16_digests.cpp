// C16: MD5 / SHA-1 buffering and padding, HMAC key schedule, hex keys
// (src/md5.cpp, private/sha1.h, src/crypto.cpp), real code.  The compression
// functions are replaced by recorders (models/stubs_c16.c): what is decided is that
// exactly the RFC-padded blocks reach them, for every length and split.
#include "verif_std.h"
#define private public
#define protected public
#include "src/md5.cpp"
#include "src/crypto.cpp"
#undef private
#undef protected
#include "verif.h"
#ifdef VERIF_NATIVE
#include <openssl/md5.h>
#include <openssl/sha.h>
#endif

static unsigned char rec_blocks[4][64];
static unsigned rec_n;
extern "C" __attribute__((noinline)) void verif_record_block(const unsigned char *b)
{
    if (rec_n < 4) for (unsigned i = 0; i < 64; i++) rec_blocks[rec_n][i] = b[i];
    rec_n++;
}
// lengths worth a solver instance each: around every block boundary
static const unsigned LEN[] = {0, 1, 2, 54, 55, 56, 57, 63, 64, 65, 118, 119, 120, 121, 127, 128, 129, 130};
static unsigned split_of(unsigned L, unsigned which)
{
    switch (which) { case 0: return 0; case 1: return L ? 1 : 0; case 2: return L / 2; case 3: return L ? L - 1 : 0; case 4: return L > 64 ? 64 : L; default: return L > 55 ? 55 : L; }
}

// C16.a: md5_init/md5_append/md5_finish hand the compression function exactly the RFC 1321
// padding of the message, whatever the split into two appends
extern "C" void h_c16a_md5_padding()
{
    unsigned L = LEN[verif_param(0)];
    unsigned L1 = split_of(L, verif_param(1));
    static unsigned char msg[136];
    for (unsigned i = 0; i < L; i++) msg[i] = nondet_u8();
    cppcms::impl::md5_state_t st;
    unsigned char dig[16];
    rec_n = 0;
    cppcms::impl::md5_init(&st);
    cppcms::impl::md5_append(&st, msg, L1);
    cppcms::impl::md5_append(&st, msg + L1, L - L1);
    cppcms::impl::md5_finish(&st, dig);
#ifndef VERIF_NATIVE
    unsigned nb = (L + 8) / 64 + 1;
    CHECKM(rec_n == nb, "number of blocks compressed differs from RFC 1321 padding");
    for (unsigned b = 0; b < nb && b < 4; b++)
        for (unsigned i = 0; i < 64; i++) {
            unsigned pos = b * 64 + i;
            unsigned char e;
            if (pos < L) e = msg[pos];
            else if (pos == L) e = 0x80;
            else if (pos < nb * 64 - 8) e = 0;
            else { unsigned k = pos - (nb * 64 - 8); unsigned long long bits = (unsigned long long)L * 8; e = (unsigned char)(bits >> (8 * k)); }
            CHECKM(rec_blocks[b][i] == e, "block content differs from RFC 1321 padding (0x80, zeros, 64-bit little-endian bit length)");
        }
#else
    unsigned char ref[16];
    MD5(msg, L, ref);
    for (unsigned i = 0; i < 16; i++) CHECKM(dig[i] == ref[i], "MD5 digest differs from the reference implementation");
#endif
    WITNESS("padded");
    VERIF_END();
}

// C16.b: sha1::process_bytes/get_digest: blocks == FIPS 180 padding (big-endian bit length)
extern "C" void h_c16b_sha1_padding()
{
    unsigned L = LEN[verif_param(0)];
    unsigned L1 = split_of(L, verif_param(1));
    static unsigned char msg[136];
    for (unsigned i = 0; i < L; i++) msg[i] = nondet_u8();
    cppcms::impl::sha1 s;
    unsigned dg[5];
    rec_n = 0;
    s.process_bytes(msg, L1);
    s.process_bytes(msg + L1, L - L1);
    s.get_digest(dg);
#ifndef VERIF_NATIVE
    unsigned nb = (L + 8) / 64 + 1;
    CHECKM(rec_n == nb, "number of blocks compressed differs from FIPS 180 padding");
    for (unsigned b = 0; b < nb && b < 4; b++)
        for (unsigned i = 0; i < 64; i++) {
            unsigned pos = b * 64 + i;
            unsigned char e;
            if (pos < L) e = msg[pos];
            else if (pos == L) e = 0x80;
            else if (pos < nb * 64 - 8) e = 0;
            else { unsigned k = pos - (nb * 64 - 8); unsigned long long bits = (unsigned long long)L * 8; e = (unsigned char)(bits >> (8 * (7 - k))); }
            CHECKM(rec_blocks[b][i] == e, "block content differs from FIPS 180 padding (0x80, zeros, 64-bit big-endian bit length)");
        }
#else
    unsigned char ref[20];
    SHA1(msg, L, ref);
    for (unsigned i = 0; i < 5; i++) {
        unsigned w = ((unsigned)ref[4*i] << 24) | ((unsigned)ref[4*i+1] << 16) | ((unsigned)ref[4*i+2] << 8) | ref[4*i+3];
        CHECKM(dg[i] == w, "SHA-1 digest differs from the reference implementation");
    }
#endif
    WITNESS("padded");
    VERIF_END();
}

// ---- C16.c: HMAC over a recording digest with small block/digest sizes ----
struct rec_digest : public cppcms::crypto::message_digest {
    unsigned char *log;       // bytes appended since the last readout
    unsigned *n;
    unsigned char *outs;      // digests handed out (4 bytes each), in order
    unsigned *nouts;
    unsigned char *msgs;      // copy of each finished message (<= 24 bytes), in order
    unsigned *msg_len;
    virtual unsigned digest_size() const { return 4; }
    virtual unsigned block_size() const { return 8; }
    virtual void append(void const *p, size_t k) { for (size_t i = 0; i < k; i++) { if (*n < 24) log[*n] = ((unsigned char const *)p)[i]; (*n)++; } }
    virtual void readout(void *p) {
        unsigned idx = *nouts;
        for (unsigned i = 0; i < 4; i++) { unsigned char d = nondet_u8(); if (idx < 8) outs[idx * 4 + i] = d; ((unsigned char *)p)[i] = d; }
        if (idx < 8) { msg_len[idx] = *n; for (unsigned i = 0; i < 24; i++) msgs[idx * 24 + i] = i < *n ? log[i] : 0; }
        (*nouts)++;
        *n = 0;
    }
    virtual char const *name() const { return "rec"; }
    virtual rec_digest *clone() const;
    virtual ~rec_digest() {}
};
// two digest objects exist (inner, outer): each has its own log, both share the ordered output lists
static unsigned char g_log[2][24]; static unsigned g_n[2];
static unsigned char g_outs[8 * 4]; static unsigned g_nouts;
static unsigned char g_msgs[8 * 24]; static unsigned g_msg_len[8];
static unsigned g_who[8]; static unsigned g_objs;
struct rec_digest2 : public rec_digest {
    unsigned id;
    virtual void readout(void *p) { if (g_nouts < 8) g_who[g_nouts] = id; rec_digest::readout(p); }
};
static rec_digest2 *make_digest()
{
    rec_digest2 *d = new rec_digest2();
    d->id = g_objs; d->log = g_log[g_objs]; d->n = &g_n[g_objs]; g_objs++;
    d->outs = g_outs; d->nouts = &g_nouts; d->msgs = g_msgs; d->msg_len = g_msg_len;
    return d;
}
rec_digest *rec_digest::clone() const { return make_digest(); }

extern "C" void h_c16c_hmac_schedule()
{
    unsigned kl = verif_param(0);     // key length 0..12 (block size 8)
    unsigned ml = verif_param(1);     // message length
    unsigned char keyb[12], msg[6];
    for (unsigned i = 0; i < kl; i++) keyb[i] = nondet_u8();
    for (unsigned i = 0; i < ml; i++) msg[i] = nondet_u8();
    g_objs = 0; g_nouts = 0; g_n[0] = g_n[1] = 0;
    cppcms::crypto::key k(keyb, kl);
    std::unique_ptr<cppcms::crypto::message_digest> md(make_digest());
    cppcms::crypto::hmac &h = *new cppcms::crypto::hmac(std::move(md), k);
    unsigned char kprime[8] = {0};
    unsigned base = 0;   // index of the first readout belonging to message 1
    if (kl > 8) {
        // first readout: digest of the key, by the inner object
        CHECKM(g_nouts == 1 && g_who[0] == 0 && g_msg_len[0] == kl, "long key was not hashed once by the inner digest");
        for (unsigned i = 0; i < kl; i++) CHECKM(g_msgs[i] == keyb[i], "hashed key differs from the key");
        for (unsigned i = 0; i < 4; i++) kprime[i] = g_outs[i];
        base = 1;
    } else {
        CHECKM(g_nouts == 0, "short key caused a digest readout");
        for (unsigned i = 0; i < kl; i++) kprime[i] = keyb[i];
    }
    for (unsigned round = 0; round < 2; round++) {
        unsigned char out[4];
        h.append(msg, ml);
        h.readout(out);
        unsigned r0 = base + round * (kl > 8 ? 3 : 2);
        // inner: (K' xor 0x36) || msg
        CHECKM(g_who[r0] == 0 && g_msg_len[r0] == 8 + ml, "inner digest did not receive ipad block + message");
        for (unsigned i = 0; i < 8; i++) CHECKM(g_msgs[r0 * 24 + i] == (unsigned char)(kprime[i] ^ 0x36), "inner pad differs from K' xor 0x36");
        for (unsigned i = 0; i < ml; i++) CHECKM(g_msgs[r0 * 24 + 8 + i] == msg[i], "inner message differs");
        // outer: (K' xor 0x5c) || inner digest
        CHECKM(g_who[r0 + 1] == 1 && g_msg_len[r0 + 1] == 8 + 4, "outer digest did not receive opad block + inner digest");
        for (unsigned i = 0; i < 8; i++) CHECKM(g_msgs[(r0 + 1) * 24 + i] == (unsigned char)(kprime[i] ^ 0x5c), "outer pad differs from K' xor 0x5c");
        for (unsigned i = 0; i < 4; i++) CHECKM(g_msgs[(r0 + 1) * 24 + 8 + i] == g_outs[r0 * 4 + i], "outer message is not the inner digest");
        for (unsigned i = 0; i < 4; i++) CHECKM(out[i] == g_outs[(r0 + 1) * 4 + i], "HMAC output is not the outer digest");
        if (kl > 8) {
            // re-priming hashes the key again (deterministic digest => same K'): constrain the model accordingly
            unsigned rk = r0 + 2;
            CHECKM(g_who[rk] == 0 && g_msg_len[rk] == kl, "re-priming did not hash the key again");
            for (unsigned i = 0; i < 4; i++) ASSUME(g_outs[rk * 4 + i] == kprime[i]);
        }
    }
    WITNESS("two messages");
    VERIF_END();
}

// C16.e: key::set_hex accepts exactly even-length hex strings; value = big-endian nibbles
extern "C" void h_c16e_key_hex()
{
    unsigned n = verif_param(0);
    char *s = (char *)malloc(n ? n : 1);
    for (unsigned i = 0; i < n; i++) s[i] = (char)nondet_u8();
    bool all_hex = true;
    for (unsigned i = 0; i < n; i++) {
        char c = s[i];
        if (!((c >= '0' && c <= '9') || (c >= 'a' && c <= 'f') || (c >= 'A' && c <= 'F'))) all_hex = false;
    }
    cppcms::crypto::key &k = *new cppcms::crypto::key();
    bool thrown = false;
    try { k.set_hex(s, n); } catch (booster::invalid_argument const &) { thrown = true; }
    CHECKM(thrown == (n != 0 && (n % 2 != 0 || !all_hex)), "set_hex accepts/rejects differently from: even length and only hex digits");
    if (!thrown) {
        CHECKM(k.size() == n / 2, "key size differs from half the hex length");
        for (unsigned b = 0; b < n / 2; b++) {
            unsigned hi = s[2*b] <= '9' ? s[2*b] - '0' : (s[2*b] | 0x20) - 'a' + 10;
            unsigned lo = s[2*b+1] <= '9' ? s[2*b+1] - '0' : (s[2*b+1] | 0x20) - 'a' + 10;
            CHECKM((unsigned char)k.data()[b] == (unsigned char)(hi * 16 + lo), "key byte differs from the hex pair");
        }
        WITNESS("accepted");
    } else WITNESS("rejected");
    VERIF_END();
}

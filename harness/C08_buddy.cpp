// C08: buddy allocator of the process-shared cache (private/buddy_allocator.h), real code.
#include "verif_std.h"
#define private public
#define protected public
#include <cppcms/defs.h>
#define class struct   /* the header forward-declares 'struct page' under the default (private) access */
#include "buddy_allocator.h"
#undef class
#undef private
#undef protected
#include "verif.h"

#ifndef VERIF_K
#define VERIF_K 4
#endif
#ifndef VERIF_ARENA
#define VERIF_ARENA 256
#endif
typedef cppcms::impl::buddy_allocator buddy;

// representation invariant of the free lists (the repository's own test_and_get_free_pages,
// re-expressed): marks, links, arena containment
static void check_free_lists(buddy *b)
{
    char *lo = b->memory(), *hi = b->memory() + b->memory_size_;
    for (int i = 0; i < 64; i++) {
        if (i < buddy::alignment_bits + 1 || i > b->max_bit_size_) { CHECKM(b->free_list_[i] == 0, "free list populated outside the valid orders"); continue; }
        unsigned n = 0;
        for (buddy::page *p = b->free_list_[i]; p && n < 9; p = p->next, n++) {
            CHECKM((char *)p >= lo && (char *)p + (size_t(1) << i) <= hi, "free page outside the arena");
            CHECKM(p->bits == i, "free page carries the wrong order / in-use mark");
            if (p == b->free_list_[i]) CHECKM(p->prev == 0, "head of a free list has a predecessor");
            if (p->next) CHECKM(p->next->prev == p, "free list links are inconsistent");
        }
        CHECKM(n < 9, "free list longer than the arena allows (cycle)");
    }
}

// C08.b: any sequence of K malloc/free operations: blocks inside the arena, aligned,
// pairwise disjoint, free-list invariant kept; after releasing everything the
// allocator is back to its initial capacity (fill - empty - refill).
extern "C" void h_c08b_buddy_sequence()
{
    // the arena is given the shape the allocator imposes on it (a page header every 32 bytes), so the
    // solver sees typed pointer fields instead of pointers stored in raw bytes
    struct cell { buddy::page pg; long long spare; };
    struct raw_buddy { void *free_list[64]; size_t memory_size; int max_bits; size_t pad[2]; }; // same layout as buddy (checked)
    static struct { raw_buddy b; cell cells[VERIF_ARENA / 32]; } A;
    static_assert(sizeof(raw_buddy) == sizeof(buddy) && sizeof(cell) == 32 && sizeof(A) == sizeof(buddy) + VERIF_ARENA, "arena layout");
    buddy *b = new ((void *)&A.b) buddy(sizeof(A));
    size_t free0 = b->total_free_memory();
    char *lo = b->memory(), *hi = b->memory() + b->memory_size_;
    void *slot[VERIF_K];
    size_t ssize[VERIF_K];
    for (int i = 0; i < VERIF_K; i++) { slot[i] = 0; ssize[i] = 0; }
    for (int step = 0; step < VERIF_K; step++) {
        unsigned i = nondet_u8();
        ASSUME(i < VERIF_K);
        if (slot[i] == 0) {
            size_t sz = nondet_u8();
            ASSUME(sz >= 1 && sz <= VERIF_ARENA);
            void *p = b->malloc(sz);
            if (p) {
                CHECKM((char *)p >= lo + buddy::alignment && (char *)p + sz <= hi, "block outside the arena");
                CHECKM((((char *)p - lo) & (buddy::alignment - 1)) == 0, "block not aligned");
                for (int j = 0; j < VERIF_K; j++)
                    if (slot[j]) CHECKM((char *)p + sz <= (char *)slot[j] - buddy::alignment || (char *)slot[j] + ssize[j] <= (char *)p - buddy::alignment, "block overlaps a live block (or its header)");
                slot[i] = p; ssize[i] = sz;
                WITNESS("allocated");
            } else {
                CHECKM(b->max_free_chunk() < sz, "allocation refused although a large enough free chunk exists");
                WITNESS("refused");
            }
        } else {
            b->free(slot[i]);
            slot[i] = 0;
            WITNESS("freed");
        }
        check_free_lists(b);
    }
    for (int j = 0; j < VERIF_K; j++) if (slot[j]) { b->free(slot[j]); slot[j] = 0; }
    check_free_lists(b);
    CHECKM(b->total_free_memory() == free0, "memory lost: free total after releasing everything differs from the initial total");
    CHECKM(b->free_list_[b->max_bit_size_] != 0, "largest chunk not restored after releasing everything");
    WITNESS("all released");
    VERIF_END();
}

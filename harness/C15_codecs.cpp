// C15: HTML escaping, URL codec, base64url (src/util.cpp, src/base64.cpp), real code.
#include "verif_std.h"
#define private public
#define protected public
#include "src/util.cpp"
#include "src/base64.cpp"
#undef private
#undef protected
#include "verif.h"

// recording streambuf: no put area, so every sputc goes through overflow() and
// every sputn through xsputn(); fails once 'limit' bytes were accepted
struct rec_buf : public std::streambuf {
    unsigned char data[48];
    unsigned n, limit;
    rec_buf(unsigned lim) : n(0), limit(lim) {}
    virtual int overflow(int c) {
        if (c == EOF) return 0;
        if (n >= limit || n >= sizeof(data)) return EOF;
        data[n++] = (unsigned char)c;
        return c;
    }
    virtual std::streamsize xsputn(char const *s, std::streamsize k) {
        std::streamsize i = 0;
        for (; i < k; i++) {
            if (n >= limit || n >= sizeof(data)) break;
            data[n++] = (unsigned char)s[i];
        }
        return i;
    }
};

static unsigned char *sym_buffer(unsigned n)
{
    unsigned char *p = (unsigned char *)malloc(n);
    for (unsigned i = 0; i < n; i++) p[i] = nondet_u8();
    return p;
}

// reference un-escape of the five entities; returns false if the text contains a
// raw markup character or a bare '&'
static bool ref_unescape(const unsigned char *t, unsigned m, unsigned char *out, unsigned &k)
{
    k = 0;
    unsigned i = 0;
    while (i < m) {
        unsigned char c = t[i];
        if (c == '<' || c == '>' || c == '"' || c == '\'') return false;
        if (c != '&') { out[k++] = c; i++; continue; }
        if (i + 3 < m && t[i+1]=='l' && t[i+2]=='t' && t[i+3]==';') { out[k++]='<'; i+=4; }
        else if (i + 3 < m && t[i+1]=='g' && t[i+2]=='t' && t[i+3]==';') { out[k++]='>'; i+=4; }
        else if (i + 4 < m && t[i+1]=='a' && t[i+2]=='m' && t[i+3]=='p' && t[i+4]==';') { out[k++]='&'; i+=5; }
        else if (i + 5 < m && t[i+1]=='q' && t[i+2]=='u' && t[i+3]=='o' && t[i+4]=='t' && t[i+5]==';') { out[k++]='"'; i+=6; }
        else if (i + 4 < m && t[i+1]=='#' && t[i+2]=='3' && t[i+3]=='9' && t[i+4]==';') { out[k++]='\''; i+=5; }
        else return false;
    }
    return true;
}

// C15.a: escape(begin,end,streambuf&): output has no markup, un-escapes to the input;
// a failing sink makes it return -1
extern "C" void h_c15a_escape_streambuf()
{
    unsigned n = verif_param(0);
    unsigned char *in = sym_buffer(n);
    bool failing = nondet_bool();
    unsigned limit = 48;
    if (failing) { limit = nondet_u8(); ASSUME(limit < 48); }
    rec_buf rb(limit);
    int r = cppcms::util::escape((char const *)in, (char const *)in + n, rb);
    unsigned char back[8];
    unsigned k = 0;
    if (r == 0) {
        bool ok = ref_unescape(rb.data, rb.n, back, k);
        CHECKM(ok, "escaped text contains raw markup or a bare ampersand");
        CHECKM(k == n, "un-escaped length differs from the input length");
        for (unsigned i = 0; i < n; i++) CHECKM(back[i] == in[i], "un-escaped text differs from the input");
        WITNESS("escaped");
        if (rb.n > n) WITNESS("entity emitted");
    } else {
        CHECKM(r == -1, "unexpected return value");
        CHECKM(failing && rb.n <= limit, "reported failure although the sink accepted everything");
        WITNESS("sink failure");
    }
    free(in);
}

// C15.a2: escape(std::string) agrees with the streambuf overload
extern "C" void h_c15a_escape_string()
{
    unsigned n = verif_param(0);
    unsigned char *in = sym_buffer(n);
    std::string s((char const *)in, n);
    std::string e = cppcms::util::escape(s);
    rec_buf rb(48);
    int r = cppcms::util::escape((char const *)in, (char const *)in + n, rb);
    CHECKM(r == 0, "streambuf overload failed");
    CHECKM(e.size() == rb.n, "string and streambuf overloads produce different lengths");
    for (unsigned i = 0; i < rb.n; i++) CHECKM((unsigned char)e[i] == rb.data[i], "string and streambuf overloads differ");
    WITNESS("compared");
    free(in);
}

static bool unreserved(unsigned char c)
{
    return (c >= 'a' && c <= 'z') || (c >= 'A' && c <= 'Z') || (c >= '0' && c <= '9') || c == '-' || c == '_' || c == '.' || c == '~';
}
static int hexval(unsigned char c)
{
    if (c >= '0' && c <= '9') return c - '0';
    if (c >= 'a' && c <= 'f') return c - 'a' + 10;
    if (c >= 'A' && c <= 'F') return c - 'A' + 10;
    return -1;
}
// C15.b: urlencode(b,e,streambuf&): alphabet = unreserved + %xx; reference decode gives the input back;
// util::urldecode inverts it
extern "C" void h_c15b_urlencode()
{
    unsigned n = verif_param(0);
    unsigned char *in = sym_buffer(n);
    rec_buf rb(48);
    int r = cppcms::util::urlencode((char const *)in, (char const *)in + n, rb);
    CHECKM(r == 0, "urlencode failed on a working sink");
    unsigned i = 0, k = 0;
    while (i < rb.n) {
        unsigned char c = rb.data[i];
        if (c == '%') {
            CHECKM(i + 2 < rb.n, "truncated percent escape");
            int h = hexval(rb.data[i+1]), l = hexval(rb.data[i+2]);
            CHECKM(h >= 0 && l >= 0, "percent escape is not two hex digits");
            CHECKM(k < n && in[k] == (unsigned char)(h * 16 + l), "percent escape decodes to the wrong byte");
            CHECKM(!unreserved(in[k]), "unreserved character was percent-encoded");
            i += 3; k++;
        } else {
            CHECKM(unreserved(c), "character outside the unreserved set emitted literally");
            CHECKM(k < n && in[k] == c, "literal character differs from the input");
            i++; k++;
        }
    }
    CHECKM(k == n, "encoded text does not cover the whole input");
    // real decoder inverts the real encoder
    std::string dec = cppcms::util::urldecode((char const *)rb.data, (char const *)rb.data + rb.n);
    CHECKM(dec.size() == n, "urldecode(urlencode(s)) has a different length");
    for (unsigned j = 0; j < n; j++) CHECKM((unsigned char)dec[j] == in[j], "urldecode(urlencode(s)) != s");
    WITNESS("round trip");
    if (rb.n > n) WITNESS("escape emitted");
    free(in);
}

// C15.b2: urldecode on arbitrary bytes never reads outside its range and yields <= n bytes
extern "C" void h_c15b_urldecode_safety()
{
    unsigned n = verif_param(0);
    unsigned char *in = sym_buffer(n);
    std::string dec = cppcms::util::urldecode((char const *)in, (char const *)in + n);
    CHECKM(dec.size() <= n, "decoded text longer than the input");
    WITNESS("decoded");
    free(in);
}

// C15.c: encoded_size / decoded_size arithmetic for every size below 2^30
extern "C" void h_c15c_sizes()
{
    uint64_t s = nondet_u64();
    ASSUME(s < (1ull << 30));
    uint64_t e = (uint64_t)(unsigned)cppcms::b64url::encoded_size(s);
    CHECKM(e == (4 * s + 2) / 3, "encoded_size != ceil(4s/3)");
    int d = cppcms::b64url::decoded_size(e);
    CHECKM(d >= 0 && (uint64_t)d == s, "decoded_size(encoded_size(s)) != s");
    int d2 = cppcms::b64url::decoded_size(s);
    CHECKM((d2 == -1) == (s % 4 == 1), "decoded_size rejects exactly the lengths = 1 mod 4");
    if (d2 >= 0) CHECKM((uint64_t)d2 == (3 * s) / 4, "decoded_size != floor(3s/4)");
    WITNESS("sizes");
}

static const char b64url_alphabet[] = "ABCDEFGHIJKLMNOPQRSTUVWXYZabcdefghijklmnopqrstuvwxyz0123456789-_";
// C15.d: pointer encode/decode with exact-size buffers: writes exactly encoded_size bytes of
// the URL-safe alphabet (no padding), reference value, and decode inverts it
extern "C" void h_c15d_b64_roundtrip()
{
    unsigned n = verif_param(0);
    unsigned char *in = sym_buffer(n);
    int es = cppcms::b64url::encoded_size(n);
    unsigned char *enc = (unsigned char *)malloc(es);
    unsigned char *end = cppcms::b64url::encode(in, in + n, enc);
    CHECKM(end == enc + es, "encode wrote a different number of bytes than encoded_size");
    // reference: 6-bit groups, most significant first
    for (int i = 0; i < es; i++) {
        unsigned bit = i * 6;
        unsigned byte = bit / 8, sh = bit % 8;
        unsigned w = (unsigned)in[byte] << 8;
        if (byte + 1 < n) w |= in[byte + 1];
        unsigned six = (w >> (10 - sh)) & 0x3F;
        CHECKM(enc[i] == (unsigned char)b64url_alphabet[six], "encoded character differs from RFC 4648 base64url");
    }
    int ds = cppcms::b64url::decoded_size(es);
    CHECKM(ds == (int)n, "decoded_size(encoded_size(n)) != n");
    unsigned char *dec = (unsigned char *)malloc(ds);
    unsigned char *dend = cppcms::b64url::decode(enc, enc + es, dec);
    CHECKM(dend == dec + ds, "decode wrote a different number of bytes than decoded_size");
    for (unsigned i = 0; i < n; i++) CHECKM(dec[i] == in[i], "decode(encode(x)) != x");
    WITNESS("round trip");
    free(in); free(enc); free(dec);
}

// C15.d2: decode of arbitrary bytes whose length is acceptable (decoded_size >= 0) stays inside both buffers
extern "C" void h_c15d_b64_decode_safety()
{
    unsigned n = verif_param(0);
    unsigned char *in = sym_buffer(n);
    int ds = cppcms::b64url::decoded_size(n);
    if (ds >= 0) {
        unsigned char *dec = (unsigned char *)malloc(ds);
        unsigned char *dend = cppcms::b64url::decode(in, in + n, dec);
        CHECKM(dend == dec + ds, "decode wrote a different number of bytes than decoded_size");
        free(dec);
        WITNESS("decoded");
    } else {
        std::string out;
        CHECKM(!cppcms::b64url::decode(std::string((char const *)in, n), out), "string decode accepted a length = 1 mod 4");
        WITNESS("rejected length");
    }
    free(in);
}

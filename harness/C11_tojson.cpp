// C11.b: JSON string writer (src/json.cpp, json::to_json -> details::generic_append), real code:
// the output is a quoted string without raw control characters, quotes or backslashes, and an
// independent JSON-string decoder gives back the input.
#include "verif_std.h"
#define private public
#define protected public
#include "src/json.cpp"
#undef private
#undef protected
#include "verif.h"

static int hexv(unsigned char c) { if (c >= '0' && c <= '9') return c - '0'; if (c >= 'a' && c <= 'f') return c - 'a' + 10; if (c >= 'A' && c <= 'F') return c - 'A' + 10; return -1; }
extern "C" void h_c11b_to_json()
{
    unsigned n = verif_param(0);
    unsigned char *in = (unsigned char *)malloc(n ? n : 1);
    for (unsigned i = 0; i < n; i++) in[i] = nondet_u8();
    std::string out = cppcms::json::to_json((char const *)in, (char const *)in + n);
    unsigned m = out.size();
    CHECKM(m >= 2 && out[0] == '"' && out[m - 1] == '"', "output is not a quoted string");
    unsigned i = 1, k = 0;
    while (i + 1 < m) {
        unsigned char c = out[i];
        CHECKM(c > 0x1F, "raw control character in the JSON string");
        CHECKM(c != '"', "unescaped quote inside the JSON string");
        if (c != '\\') { CHECKM(k < n && in[k] == c, "literal character differs from the input"); i++; k++; continue; }
        CHECKM(i + 2 < m, "dangling backslash");
        unsigned char e = out[i + 1];
        unsigned char d = 0; bool ok = true;
        switch (e) {
        case '"': d = '"'; break; case '\\': d = '\\'; break; case 'b': d = '\b'; break; case 'f': d = '\f'; break;
        case 'n': d = '\n'; break; case 'r': d = '\r'; break; case 't': d = '\t'; break;
        case 'u': {
            CHECKM(i + 6 < m, "truncated \\u escape");
            int a = hexv(out[i + 2]), b = hexv(out[i + 3]), c2 = hexv(out[i + 4]), d2 = hexv(out[i + 5]);
            CHECKM(a == 0 && b == 0 && c2 >= 0 && d2 >= 0, "malformed \\u00XX escape");
            d = (unsigned char)(c2 * 16 + d2); i += 4; break; }
        default: ok = false;
        }
        CHECKM(ok, "unknown escape sequence");
        CHECKM(k < n && in[k] == d, "escape decodes to a different byte");
        i += 2; k++;
    }
    CHECKM(k == n, "decoded text does not cover the whole input");
    WITNESS("written");
    if (m > n + 2) WITNESS("escaped something");
    VERIF_END();
}

// Harness API shared by the symbolic (clang IR -> ir2c -> CBMC) build and the
// native replay build (g++ -fsanitize=address,undefined, -DVERIF_NATIVE).
#ifndef VERIF_H
#define VERIF_H
#include <stdint.h>
#include <stddef.h>
extern "C" {
uint8_t nondet_u8() noexcept;
uint16_t nondet_u16() noexcept;
uint32_t nondet_u32() noexcept;
uint64_t nondet_u64() noexcept;
bool nondet_bool() noexcept;
double nondet_double() noexcept;
void __CPROVER_assume(bool) noexcept;
void verif_assert(bool, const char *) noexcept;
void verif_observe(uint64_t) noexcept;
// concrete "split" parameter i of this solver instance (lengths, counts): the
// driver enumerates the stated range and runs one solver instance per value,
// because CBMC needs concrete sizes for strings/buffers to stay tractable;
// everything else (contents, choices) stays symbolic.
uint32_t verif_param(uint32_t i) noexcept;
// end of harness: stop without running the destructors of the harness' locals
void verif_end() noexcept;
}
#define VERIF_END() verif_end()
#define VERIF_STR2(x) #x
#define VERIF_STR(x) VERIF_STR2(x)
// nomerge: keep every assertion call site distinct in the IR (the message must
// stay a literal so ir2c can name the CBMC property)
#ifdef __clang__
#define VERIF_NOMERGE [[clang::nomerge]]
#else
#define VERIF_NOMERGE
#endif
#define CHECK(c) VERIF_NOMERGE verif_assert((c), #c " [line " VERIF_STR(__LINE__) "]")
#define CHECKM(c, msg) VERIF_NOMERGE verif_assert((c), msg " [line " VERIF_STR(__LINE__) "]")
#define ASSUME(c) __CPROVER_assume(c)
// reachability witness: must be reported FAILED by the solver, otherwise the
// obligation is vacuous.  Ignored in the native build.
#define WITNESS(label) VERIF_NOMERGE verif_assert(false, "WITNESS " label)
#define OBSERVE(x) verif_observe((uint64_t)(x))
#endif

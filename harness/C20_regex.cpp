// C20.a: booster::regex over PCRE (booster/lib/regex/src/pcre_regex.cpp), real code.
// PCRE itself is a library: pcre_compile / pcre_fullinfo / pcre_exec are recorders with
// arbitrary results.  Decided here: the anchoring contract at the call site.
#include "verif_std.h"
#include <pcre.h>
#define private public
#define protected public
#include "booster/lib/regex/src/pcre_regex.cpp"
#include "src/url_dispatcher.cpp"
#include "src/mount_point.cpp"
#undef private
#undef protected
#include "verif.h"

static unsigned char g_pat[2][16]; static unsigned g_pat_n[2]; static int g_pat_flags[2]; static unsigned g_compiles;
static long long g_handle[8];
static bool g_M[4]; static unsigned g_consulted[4]; static unsigned g_ran[4];
static int g_capture_count;
static const void *g_exec_re; static int g_exec_len, g_exec_start, g_exec_opts, g_exec_ovsize; static unsigned g_execs;
static int g_exec_res; static int g_ov[9]; static bool g_dispatch_mode;
#ifndef VERIF_NATIVE
static void *model_pcre_malloc(size_t n) { return malloc(n); }
static void model_pcre_free(void *p) { free(p); }
void *(*pcre_malloc)(size_t) = model_pcre_malloc;
void (*pcre_free)(void *) = model_pcre_free;
extern "C" {
pcre *pcre_compile(const char *pat, int flags, const char **err, int *off, const unsigned char *tbl)
{
    (void)err; (void)off; (void)tbl;
    unsigned k = g_compiles < 2 ? g_compiles : 1;
    unsigned n = 0;
    while (n < 16 && pat[n]) { g_pat[k][n] = pat[n]; n++; }
    g_pat_n[k] = n; g_pat_flags[k] = flags;
    pcre *h = (pcre *)&g_handle[g_compiles < 8 ? g_compiles : 7];
    g_compiles++;
    return h;
}
int pcre_fullinfo(const pcre *re, const pcre_extra *ex, int what, void *where)
{
    (void)re; (void)ex;
    if (what == PCRE_INFO_SIZE) *(size_t *)where = 8;
    else if (what == PCRE_INFO_CAPTURECOUNT) *(int *)where = g_capture_count;
    return 0;
}
int pcre_exec(const pcre *re, const pcre_extra *ex, const char *subj, int len, int start, int opts, int *ov, int ovsize)
{
    (void)ex; (void)subj;
    g_exec_re = re; g_exec_len = len; g_exec_start = start; g_exec_opts = opts; g_exec_ovsize = ovsize; g_execs++;
    if (g_dispatch_mode) {
        // oracle table: option i owns handles 2i (search form) and 2i+1 (anchored form)
        for (unsigned i = 0; i < 4; i++) if (re == (const pcre *)&g_handle[2 * i + 1]) {
            g_consulted[i]++;
            if (!g_M[i]) return -1;
            if (ov && ovsize >= 2) { ov[0] = 0; ov[1] = len; }
            return 1;
        }
        return -1;
    }
    if (ov) for (int i = 0; i < ovsize && i < 9; i++) ov[i] = g_ov[i];
    return g_exec_res;
}
}
#endif

extern "C" void h_c20a_anchoring()
{
#ifndef VERIF_NATIVE
    unsigned n = verif_param(0);
    unsigned char p[4];
    for (unsigned i = 0; i < n; i++) { p[i] = nondet_u8(); ASSUME(p[i] != 0); }
    g_compiles = 0; g_execs = 0;
    g_capture_count = nondet_u8(); ASSUME(g_capture_count >= 0 && g_capture_count <= 2);
    bool icase = nondet_bool();
    booster::regex &r = *new booster::regex();
    r.assign(std::string((char const *)p, n), icase ? booster::regex::icase : 0);
    CHECKM(g_compiles == 2, "pattern not compiled twice (search form and anchored form)");
    CHECKM(g_pat_n[0] == n, "search pattern differs from the given pattern");
    for (unsigned i = 0; i < n; i++) CHECKM(g_pat[0][i] == p[i], "search pattern differs from the given pattern");
    CHECKM(g_pat_n[1] == n + 6 && g_pat[1][0] == '(' && g_pat[1][1] == '?' && g_pat[1][2] == ':', "anchored pattern does not start with (?:");
    for (unsigned i = 0; i < n; i++) CHECKM(g_pat[1][3 + i] == p[i], "anchored pattern does not embed the pattern verbatim");
    CHECKM(g_pat[1][3 + n] == ')' && g_pat[1][4 + n] == '\\' && g_pat[1][5 + n] == 'z', "anchored pattern does not end with )\\z");
    CHECKM(g_pat_flags[0] == g_pat_flags[1] && ((g_pat_flags[0] & PCRE_CASELESS) != 0) == icase, "compile flags differ between the two forms / from the request");
    // match(): whole-string question put to PCRE
    static const char subj[4] = "abc";
    unsigned len = nondet_u8(); ASSUME(len <= 3);
    g_exec_res = (int)nondet_u32(); ASSUME(g_exec_res >= -3 && g_exec_res <= 3);
    for (int i = 0; i < 9; i++) { g_ov[i] = (int)nondet_u32(); ASSUME(g_ov[i] >= -1 && g_ov[i] <= 3); }
    bool m = r.match(subj, subj + len);
    CHECKM(g_execs == 1 && g_exec_re == (const void *)&g_handle[1], "match() did not ask the anchored expression");
    CHECKM((g_exec_opts & PCRE_ANCHORED) && g_exec_start == 0 && g_exec_len == (int)len, "match() not anchored at 0 over the whole range");
    CHECKM(m == (g_exec_res >= 0), "match() verdict differs from PCRE's");
    std::vector<std::pair<int, int> > &marks = *new std::vector<std::pair<int, int> >();
    bool m2 = r.match(subj, subj + len, marks);
    CHECKM(g_execs == 2 && g_exec_re == (const void *)&g_handle[1] && (g_exec_opts & PCRE_ANCHORED) && g_exec_len == (int)len, "match(marks) did not ask the anchored expression over the whole range");
    CHECKM(g_exec_ovsize == (g_capture_count + 1) * 3, "ovector size differs from 3*(captures+1)");
    if (m2) {
        CHECKM(g_exec_res >= 0 && g_ov[0] == 0 && g_ov[1] == (int)len, "match(marks) accepted although PCRE did not match the entire string");
        CHECKM(marks.size() == (unsigned)g_capture_count + 1, "number of marks differs from captures+1");
        for (int i = 0; i <= g_capture_count && i < g_exec_res; i++) CHECKM(marks[i].first == g_ov[2 * i] && marks[i].second == g_ov[2 * i + 1], "mark differs from PCRE's ovector");
        WITNESS("whole match");
    } else {
        CHECKM(g_exec_res < 0 || g_ov[0] != 0 || g_ov[1] != (int)len, "match(marks) rejected a whole-string match");
        WITNESS("no match");
    }
#else
    WITNESS("native: model-only obligation");
#endif
    VERIF_END();
}

// C20.b: url_dispatcher::dispatch runs the first handler, in registration order, whose pattern
// matches the whole URL (match verdicts come from an oracle table), exactly one handler runs,
// later options are not consulted, and false is returned iff nothing matches.
struct count_handler { unsigned idx; void operator()() const { g_ran[idx]++; } };
extern "C" void h_c20b_first_match()
{
#ifndef VERIF_NATIVE
    unsigned K = verif_param(0);
    g_compiles = 0; g_execs = 0; g_dispatch_mode = true; g_capture_count = 0;
    cppcms::url_dispatcher &d = *new cppcms::url_dispatcher();
    static const char *pats[4] = {"a", "b", "c", "d"};
    for (unsigned i = 0; i < K; i++) {
        g_M[i] = nondet_bool(); g_consulted[i] = 0; g_ran[i] = 0;
        count_handler h; h.idx = i;
        d.assign(std::string(pats[i], 1), cppcms::url_dispatcher::handler(h));
    }
    CHECKM(g_compiles == 2 * K, "each option compiles its pattern twice");
    bool r = d.dispatch(std::string("u", 1));
    int first = -1;
    for (unsigned i = 0; i < K; i++) if (g_M[i] && first < 0) first = (int)i;
    CHECKM(r == (first >= 0), "dispatch result differs from: some pattern matches");
    unsigned total = 0;
    for (unsigned i = 0; i < K; i++) total += g_ran[i];
    if (first >= 0) {
        CHECKM(total == 1 && g_ran[first] == 1, "the handler that ran is not the first matching one in registration order");
        for (unsigned i = (unsigned)first + 1; i < K; i++) CHECKM(g_consulted[i] == 0, "options after the first match were consulted");
        WITNESS("dispatched");
        if (first > 0) WITNESS("earlier options skipped");
    } else { CHECKM(total == 0, "a handler ran although nothing matched"); WITNESS("404"); }
#else
    WITNESS("native: model-only obligation");
#endif
    VERIF_END();
}

// C20.c: mount_point::match succeeds exactly when every non-empty pattern (host, script name,
// path info) matches its whole string, and returns the selected string (group 0).
extern "C" void h_c20c_mount_point()
{
#ifndef VERIF_NATIVE
    unsigned mask = verif_param(0);          // bit0 host, bit1 script, bit2 path pattern present
    bool by_path = verif_param(1) != 0;
    g_compiles = 0; g_execs = 0; g_dispatch_mode = true; g_capture_count = 0;
    cppcms::mount_point &mp = *new cppcms::mount_point();
    // patterns are assigned in this order, so the oracle index of each is known
    int ih = -1, is = -1, ip = -1, k = 0;
    if (mask & 1) { mp.host_.assign(std::string("h", 1)); ih = k++; }
    if (mask & 2) { mp.script_name_.assign(std::string("s", 1)); is = k++; }
    if (mask & 4) { mp.path_info_.assign(std::string("p", 1)); ip = k++; }
    mp.selection_ = by_path ? cppcms::mount_point::match_path_info : cppcms::mount_point::match_script_name;
    mp.group_ = 0;
    for (int i = 0; i < 3; i++) g_M[i] = nondet_bool();
    std::pair<bool, std::string> r = mp.match("H", "S", "P");
    bool expect = (ih < 0 || g_M[ih]) && (is < 0 || g_M[is]) && (ip < 0 || g_M[ip]);
    CHECKM(r.first == expect, "mount point verdict differs from: every configured pattern matches its whole string");
    if (r.first) {
        CHECKM(r.second.size() == 1 && r.second[0] == (by_path ? 'P' : 'S'), "returned sub-path is not the selected string");
        WITNESS("mounted");
    } else WITNESS("not mounted");
#else
    WITNESS("native: model-only obligation");
#endif
    VERIF_END();
}

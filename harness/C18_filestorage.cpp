// C18: file-backed session storage (src/session_posix_file_storage.cpp), real code.
// The kernel is replaced by a byte-array disk image: write/read/lseek/time are
// defined here; the crash point is a symbolic choice per byte.
#include "verif_std.h"
#include <unistd.h>
#include <fcntl.h>
#include <sys/stat.h>
#include <sys/mman.h>
#include <dirent.h>
#include <pthread.h>
#define private public
#define protected public
#include "src/session_posix_file_storage.cpp"
#undef private
#undef protected
#include "verif.h"

#define DISK 24
static unsigned char disk[DISK];
static unsigned disk_len, disk_pos;
static bool short_io;          // partial read/write counts allowed
static long long now_value;

#ifndef VERIF_NATIVE
extern "C" {
__attribute__((noinline)) ssize_t write(int fd, const void *buf, size_t n)
{
    (void)fd;
    size_t k = n;
    if (short_io && n > 1 && n <= 3) { k = nondet_u8(); ASSUME(k >= 1 && k <= n); }
    const unsigned char *p = (const unsigned char *)buf;
    for (size_t i = 0; i < k; i++) {
        ASSUME(disk_pos < DISK);
        disk[disk_pos++] = p[i];
    }
    if (disk_pos > disk_len) disk_len = disk_pos;
    return (ssize_t)k;
}
__attribute__((noinline)) ssize_t read(int fd, void *buf, size_t n)
{
    (void)fd;
    size_t avail = disk_len > disk_pos ? disk_len - disk_pos : 0;
    size_t k = n < avail ? n : avail;
    if (short_io && k > 1 && n <= 3) { unsigned r = nondet_u8(); ASSUME(r >= 1 && r <= k); k = r; }
    unsigned char *p = (unsigned char *)buf;
    for (size_t i = 0; i < k; i++) p[i] = disk[disk_pos++];
    return (ssize_t)k;
}
off_t lseek(int fd, off_t off, int whence) { (void)fd; (void)whence; disk_pos = (unsigned)off; return off; }
time_t time(time_t *t) { if (t) *t = (time_t)now_value; return (time_t)now_value; }
}
#else
// native replay: same disk model through the same symbols (stdio does not use them)
extern "C" {
__attribute__((noinline)) ssize_t write(int fd, const void *buf, size_t n)
{
    if (fd == 1 || fd == 2) return (ssize_t)syscall(1, fd, buf, n);
    size_t k = n;
    if (short_io && n > 1 && n <= 3) { k = nondet_u8(); ASSUME(k >= 1 && k <= n); }
    const unsigned char *p = (const unsigned char *)buf;
    for (size_t i = 0; i < k; i++) { ASSUME(disk_pos < DISK); disk[disk_pos++] = p[i]; }
    if (disk_pos > disk_len) disk_len = disk_pos;
    return (ssize_t)k;
}
__attribute__((noinline)) ssize_t read(int fd, void *buf, size_t n)
{
    if (fd == 0) return (ssize_t)syscall(0, fd, buf, n);
    size_t avail = disk_len > disk_pos ? disk_len - disk_pos : 0;
    size_t k = n < avail ? n : avail;
    if (short_io && k > 1 && n <= 3) { unsigned r = nondet_u8(); ASSUME(r >= 1 && r <= k); k = r; }
    unsigned char *p = (unsigned char *)buf;
    for (size_t i = 0; i < k; i++) p[i] = disk[disk_pos++];
    return (ssize_t)k;
}
off_t lseek(int fd, off_t off, int whence) { (void)fd; (void)whence; disk_pos = (unsigned)off; return off; }
time_t time(time_t *t) { if (t) *t = (time_t)now_value; return (time_t)now_value; }
}
#endif

typedef cppcms::sessions::session_file_storage storage;
static storage *raw_storage()
{
    static long long raw[(sizeof(storage) + 7) / 8]; // the functions under test do not touch members
    return (storage *)(void *)raw;
}

// C18.a: torn write.  disk holds a valid record (old) or nothing; save(new) runs to
// completion on a copy; the image found after the crash takes the 16-byte header as
// a unit from old or new, every data byte from old or new (or anything, beyond the
// old length), and a length consistent with that; load then returns "no session",
// exactly (old timeout, old data) or exactly (new timeout, new data).
extern "C" void h_c18a_torn_write()
{
    unsigned n_old = verif_param(0), n_new = verif_param(1);
    bool have_old = verif_param(2) != 0;
    storage *st = raw_storage();
    unsigned char d_old[8], d_new[8];
    for (unsigned i = 0; i < n_old; i++) d_old[i] = nondet_u8();
    for (unsigned i = 0; i < n_new; i++) d_new[i] = nondet_u8();
    long long t_old = (long long)nondet_u64(), t_new = (long long)nondet_u64();
    now_value = (long long)nondet_u64();
    short_io = false;
    unsigned char img_old[DISK];
    unsigned len_old = 0;
    disk_len = 0; disk_pos = 0;
    if (have_old) {
        st->save_to_file(3, (time_t)t_old, std::string((char const *)d_old, n_old));
        len_old = disk_len;
    }
    for (unsigned i = 0; i < DISK; i++) img_old[i] = disk[i];
    disk_pos = 0;
    st->save_to_file(3, (time_t)t_new, std::string((char const *)d_new, n_new));
    unsigned len_new = disk_len > len_old ? disk_len : len_old; // file is never truncated
    unsigned new_end = 16 + n_new;
    // ---- crash image ----
    // which header reached the disk and the file length found after the crash are enumerated
    // per solver instance (keeps every file offset concrete); data bytes, crash mask, timeouts
    // and the clock stay symbolic
    bool hdr_new = verif_param(3) != 0;
    if (!hdr_new) {
        if (verif_param(4) != 0) { WITNESS("instance not applicable"); VERIF_END(); }
        for (unsigned i = 0; i < DISK; i++) disk[i] = img_old[i];   // nothing reached the disk
        disk_len = len_old;
    } else {
        for (unsigned i = 16; i < DISK; i++) {
            if (i < new_end) {
                if (nondet_bool()) { /* new byte persisted */ }
                else if (i < len_old) disk[i] = img_old[i];          // still the old byte
                else disk[i] = nondet_u8();                          // never-written block: anything
            } else disk[i] = img_old[i];
        }
        unsigned lo = len_old > 16 ? len_old : 16;
        unsigned cl = lo + verif_param(4);
        if (cl > len_new) { WITNESS("instance not applicable"); VERIF_END(); }
        disk_len = cl;
    }
    time_t t_out = 0;
    std::string out("?");
    out.reserve(40); // heap-backed: keeps the copy-out off the string object itself (SSO aliasing is costly for the solver)
    bool ok = st->read_from_file(3, t_out, out);
    if (ok) {
        bool is_old = have_old && (long long)t_out == t_old && out.size() == n_old;
        if (is_old) for (unsigned i = 0; i < n_old; i++) if ((unsigned char)out[i] != d_old[i]) is_old = false;
        bool is_new = (long long)t_out == t_new && out.size() == n_new;
        if (is_new) for (unsigned i = 0; i < n_new; i++) if ((unsigned char)out[i] != d_new[i]) is_new = false;
        CHECKM(is_old || is_new, "load after a torn save returned a value that was never saved");
        CHECKM((long long)t_out >= now_value, "load returned an expired session");
        WITNESS("loaded");
    } else {
        WITNESS("no session");
    }
    VERIF_END();
}

// C18.b: short reads/writes.  After a *completed* save with arbitrary partial write
// counts, a load with arbitrary partial read counts returns the saved value or "no session".
extern "C" void h_c18b_short_io()
{
    unsigned n_new = verif_param(0);
    storage *st = raw_storage();
    unsigned char d_new[8];
    for (unsigned i = 0; i < n_new; i++) d_new[i] = nondet_u8();
    long long t_new = (long long)nondet_u64();
    now_value = (long long)nondet_u64();
    disk_len = 0; disk_pos = 0;
    short_io = true;
    st->save_to_file(3, (time_t)t_new, std::string((char const *)d_new, n_new));
    time_t t_out = 0;
    std::string out("?");
    out.reserve(40); // heap-backed: keeps the copy-out off the string object itself (SSO aliasing is costly for the solver)
    bool ok = st->read_from_file(3, t_out, out);
    if (ok) {
        bool is_new = (long long)t_out == t_new && out.size() == n_new;
        if (is_new) for (unsigned i = 0; i < n_new; i++) if ((unsigned char)out[i] != d_new[i]) is_new = false;
        CHECKM(is_new, "load after short writes returned something other than the saved value");
        WITNESS("loaded");
    } else WITNESS("no session");
    VERIF_END();
}

// C18.c: read_timestamp (gc / load removal rule): true iff an 8-byte timestamp is
// readable and not in the past -- a live session is never reported dead.
extern "C" void h_c18c_timestamp()
{
    storage *st = raw_storage();
    unsigned len = nondet_u8();
    ASSUME(len <= 12);
    for (unsigned i = 0; i < 12; i++) disk[i] = nondet_u8();
    disk_len = len; disk_pos = nondet_u8();
    short_io = false;
    now_value = (long long)nondet_u64();
    long long stamp = 0;
    for (int i = 7; i >= 0; i--) stamp = (long long)(((unsigned long long)stamp << 8) | disk[i]);
    bool live = st->read_timestamp(3);
    CHECKM(live == (len >= 8 && stamp >= now_value), "read_timestamp verdict differs from: timestamp readable and not in the past");
    if (live) WITNESS("live"); else WITNESS("dead");
    VERIF_END();
}

// C14: text validators (private/utf_iterator.h, private/encoding_validators.h,
// src/encoding.cpp, booster/locale/utf.h), real code.
#include "verif_std.h"
#define private public
#define protected public
#include "src/encoding.cpp"
#undef private
#undef protected
#include <booster/locale/utf.h>
#include "verif.h"

#ifndef VERIF_N
#define VERIF_N 5
#endif

// ---- independent reference: RFC 3629 well-formed byte sequences (table 3-7 of
// the Unicode standard).  Returns the length of the legal sequence at b[0..n)
// (0 if there is none, -1 if b[0..n) is a proper prefix of a legal sequence)
// and the code point.
static int ref_utf8(const unsigned char *b, unsigned n, uint32_t &cp)
{
    if (n == 0) return -1;
    unsigned b0 = b[0];
    if (b0 <= 0x7F) { cp = b0; return 1; }
    unsigned need, lo = 0x80, hi = 0xBF;
    if (b0 >= 0xC2 && b0 <= 0xDF) need = 1;
    else if (b0 == 0xE0) { need = 2; lo = 0xA0; }
    else if (b0 >= 0xE1 && b0 <= 0xEC) need = 2;
    else if (b0 == 0xED) { need = 2; hi = 0x9F; }
    else if (b0 >= 0xEE && b0 <= 0xEF) need = 2;
    else if (b0 == 0xF0) { need = 3; lo = 0x90; }
    else if (b0 >= 0xF1 && b0 <= 0xF3) need = 3;
    else if (b0 == 0xF4) { need = 3; hi = 0x8F; }
    else return 0;
    uint32_t c = need == 1 ? (b0 & 0x1F) : need == 2 ? (b0 & 0x0F) : (b0 & 0x07);
    for (unsigned i = 1; i <= need; i++) {
        if (i >= n) return -1;
        unsigned t = b[i];
        unsigned l = (i == 1) ? lo : 0x80, h = (i == 1) ? hi : 0xBF;
        if (t < l || t > h) return 0;
        c = (c << 6) | (t & 0x3F);
    }
    cp = c;
    return (int)need + 1;
}
static bool html_ok(uint32_t cp)
{
    if (cp == 9 || cp == 10 || cp == 13) return true;
    if (cp < 0x20) return false;
    if (cp >= 0x7F && cp <= 0x9F) return false;
    return true;
}
// exact-size heap copy so that an over-read of even one byte is caught
static unsigned char *sym_buffer(unsigned n)
{
    unsigned char *p = (unsigned char *)malloc(n);
    for (unsigned i = 0; i < n; i++) p[i] = nondet_u8();
    return p;
}

// C14.a: cppcms::utf8::next == RFC 3629 on every buffer of 0..4 bytes, both modes
extern "C" void h_c14a_next()
{
    unsigned n = nondet_u8();
    ASSUME(n <= 4);
    bool html = nondet_bool();
    unsigned char *b = sym_buffer(n);
    char const *p = (char const *)b, *e = p + n;
    uint32_t r = cppcms::utf8::next(p, e, html);
    uint32_t cp = 0;
    int len = ref_utf8(b, n, cp);
    CHECKM(p <= e && p >= (char const *)b, "iterator left the buffer");
    if (len > 0 && (!html || html_ok(cp))) {
        CHECKM(r == cp, "legal sequence: wrong code point or rejected");
        CHECKM(p == (char const *)b + len, "legal sequence: wrong number of bytes consumed");
        WITNESS("legal");
        if (len == 4) WITNESS("legal 4-byte");
    } else {
        CHECKM(r == cppcms::utf::illegal, "ill-formed / truncated / html-unsafe sequence accepted");
        WITNESS("illegal");
    }
    free(b);
}

// C14.b: booster::locale::utf::utf_traits<char>::decode == RFC 3629, and agrees with utf8::next
extern "C" void h_c14b_booster_decode()
{
    using namespace booster::locale;
    unsigned n = nondet_u8();
    ASSUME(n <= 4);
    unsigned char *b = sym_buffer(n);
    char const *p = (char const *)b, *e = p + n;
    utf::code_point r = utf::utf_traits<char>::decode(p, e);
    uint32_t cp = 0;
    int len = ref_utf8(b, n, cp);
    CHECKM(p <= e, "iterator left the buffer");
    if (len > 0) {
        CHECKM(r == cp && p == (char const *)b + len, "legal sequence: wrong code point / length or rejected");
        WITNESS("legal");
    } else if (len < 0) {
        CHECKM(r == utf::incomplete, "proper prefix of a legal sequence not reported incomplete");
        WITNESS("incomplete");
    } else {
        // ill-formed: illegal, or incomplete when the buffer ended before the offending position was seen
        CHECKM(r == utf::illegal || r == utf::incomplete, "ill-formed sequence accepted");
        WITNESS("illegal");
    }
    char const *q = (char const *)b;
    uint32_t r2 = cppcms::utf8::next(q, e, false);
    CHECKM((r2 == cppcms::utf::illegal) == (r == utf::illegal || r == utf::incomplete), "the two decoders disagree on validity");
    if (r2 != cppcms::utf::illegal) CHECKM(r2 == r && q == p, "the two decoders disagree on value/length");
    free(b);
}

// C14.c: valid_utf8 (html mode) on every string of <= N bytes: valid <=> concatenation of
// legal html-safe sequences; count == number of code points
extern "C" void h_c14c_validate()
{
    unsigned n = nondet_u8();
    ASSUME(n <= VERIF_N);
    unsigned char *b = sym_buffer(n);
    size_t count = 0;
    bool v = cppcms::encoding::valid_utf8((char const *)b, (char const *)b + n, count);
    // reference scan
    unsigned pos = 0, cnt = 0;
    bool ok = true;
    while (pos < n) {
        uint32_t cp = 0;
        int len = ref_utf8(b + pos, n - pos, cp);
        if (len <= 0 || !html_ok(cp)) { ok = false; break; }
        pos += len; cnt++;
    }
    CHECKM(v == ok, "valid_utf8 verdict differs from RFC 3629 + HTML-safe rule");
    if (ok) { CHECKM(count == cnt, "reported character count differs from number of code points"); WITNESS("valid"); if (cnt >= 2 && cnt < n) WITNESS("valid multibyte mix"); }
    else WITNESS("invalid");
    free(b);
}

// C14.e: validate_or_filter_utf8: true => valid and output untouched; false => output valid
extern "C" void h_c14e_filter_utf8()
{
    unsigned n = verif_param(0); // concrete length per solver instance, contents symbolic
    unsigned char *b = sym_buffer(n);
    char repl = (char)nondet_u8();
    ASSUME(repl == 0 || (repl >= 0x20 && repl < 0x7F));
    std::string out("x");
    out.reserve(40); // heap-backed so appends at symbolic offsets do not alias the string object itself
    bool r = cppcms::encoding::validate_or_filter_utf8((char const *)b, (char const *)b + n, out, repl);
    size_t c1 = 0;
    bool was_valid = cppcms::encoding::valid_utf8((char const *)b, (char const *)b + n, c1);
    CHECKM(r == was_valid, "validate_or_filter verdict differs from valid_utf8");
    if (r) {
        CHECKM(out.size() == 1 && out[0] == 'x', "output modified although input was valid");
        WITNESS("valid input");
    } else {
        // the filtered text must be valid by the *reference* predicate
        unsigned pos = 0; bool ok = true; unsigned m = out.size();
        CHECKM(m <= n, "filtered output longer than input");
        while (pos < m) {
            uint32_t cp = 0;
            int len = ref_utf8((const unsigned char *)out.data() + pos, m - pos, cp);
            if (len <= 0 || !html_ok(cp)) { ok = false; break; }
            pos += len;
        }
        CHECKM(ok, "filtered output is not valid UTF-8 / HTML-safe");
        WITNESS("filtered");
    }
    free(b);
}

// C14.d: every single-byte charset validator judges each byte on its own, accepts
// printable ASCII, rejects C0 (except TAB/LF/CR) and DEL, ISO-8859 family rejects C1.
typedef bool (*sb_validator)(char const *, char const *, size_t &);
static sb_validator pick_validator(unsigned k, bool &iso)
{
    using namespace cppcms::encoding;
    iso = false;
    switch (k) {
    case 0: return &ascii_valid<char const *>;
    case 1: iso = true; return &iso_8859_1_2_4_5_9_10_13_14_15_16_valid<char const *>;
    case 2: iso = true; return &iso_8859_3_valid<char const *>;
    case 3: iso = true; return &iso_8859_6_valid<char const *>;
    case 4: iso = true; return &iso_8859_7_valid<char const *>;
    case 5: iso = true; return &iso_8859_8_valid<char const *>;
    case 6: iso = true; return &iso_8859_11_valid<char const *>;
    case 7: return &windows_1250_valid<char const *>;
    case 8: return &windows_1251_valid<char const *>;
    case 9: return &windows_1252_valid<char const *>;
    case 10: return &windows_1253_valid<char const *>;
    case 11: return &windows_1254_valid<char const *>;
    case 12: return &windows_1255_valid<char const *>;
    case 13: return &windows_1256_valid<char const *>;
    case 14: return &windows_1257_valid<char const *>;
    case 15: return &windows_1258_valid<char const *>;
    default: return &koi8_valid<char const *>;
    }
}
extern "C" void h_c14d_single_byte()
{
    bool iso;
    sb_validator v = pick_validator(verif_param(0), iso);
    unsigned char x = nondet_u8(), y = nondet_u8();
    unsigned char *b = (unsigned char *)malloc(2);
    b[0] = x; b[1] = y;
    size_t c1 = 0, c2 = 0, c12 = 0, c0 = 0;
    bool vx = v((char const *)b, (char const *)b + 1, c1);
    bool vy = v((char const *)b + 1, (char const *)b + 2, c2);
    bool vxy = v((char const *)b, (char const *)b + 2, c12);
    bool v0 = v((char const *)b, (char const *)b, c0);
    CHECKM(v0 && c0 == 0, "empty string rejected or counted");
    CHECKM(vxy == (vx && vy), "verdict on a 2-byte string is not the conjunction of the per-byte verdicts");
    if (vxy) { CHECKM(c12 == 2, "count differs from length for a valid string"); WITNESS("valid pair"); }
    if (vx) CHECKM(c1 == 1, "count differs from length for a valid byte");
    if (x >= 0x20 && x <= 0x7E) { CHECKM(vx, "printable ASCII rejected"); WITNESS("printable"); }
    if (x == 9 || x == 10 || x == 13) CHECKM(vx, "TAB/LF/CR rejected");
    if ((x < 0x20 && x != 9 && x != 10 && x != 13) || x == 0x7F) { CHECKM(!vx, "C0 control or DEL accepted"); WITNESS("control"); }
    if (iso && x >= 0x80 && x <= 0x9F) CHECKM(!vx, "C1 control accepted by an ISO-8859 validator");
    free(b);
}

// C14.f: validate_or_filter_single_byte_charset: true <=> every byte valid on its own, output
// untouched; false => output is the input with every invalid byte replaced (or dropped when the
// replacement is 0), valid bytes kept in order.
extern "C" void h_c14f_filter_single_byte()
{
    bool iso;
    sb_validator v = pick_validator(verif_param(0), iso);
    unsigned n = verif_param(1);
    unsigned char *b = (unsigned char *)malloc(n ? n : 1);
    for (unsigned i = 0; i < n; i++) b[i] = nondet_u8();
    char repl = (char)nondet_u8();
    std::string out("x");
    out.reserve(40);
    bool r = cppcms::encoding::validate_or_filter_single_byte_charset(v, (char const *)b, (char const *)b + n, out, repl);
    bool all = true;
    unsigned char exp[4]; unsigned m = 0;
    for (unsigned i = 0; i < n; i++) {
        size_t c = 0;
        bool ok = v((char const *)b + i, (char const *)b + i + 1, c);
        if (ok) exp[m++] = b[i];
        else { all = false; if (repl) exp[m++] = (unsigned char)repl; }
    }
    CHECKM(r == all, "filter verdict differs from: every byte valid");
    if (r) {
        CHECKM(out.size() == 1 && out[0] == 'x', "output modified although input was valid");
        WITNESS("valid input");
    } else {
        CHECKM(out.size() == m, "filtered output has the wrong length");
        for (unsigned i = 0; i < m && i < 4; i++) CHECKM((unsigned char)out[i] == exp[i], "filtered output differs from per-byte replacement");
        WITNESS("filtered");
    }
    VERIF_END();
}

// C14.g: encodings_comparator (the order of the validator dispatch table): a strict weak order equal
// to comparing the names reduced to lower-case letters and digits, so "UTF-8", "utf8" and "Utf_8"
// select the same validator and different encodings never collide.
extern "C" void h_c14g_name_comparator()
{
    unsigned nl = verif_param(0), nr = verif_param(1);
    char L[6], R[6];
    for (unsigned i = 0; i < nl; i++) { L[i] = (char)nondet_u8(); ASSUME(L[i] != 0); }
    for (unsigned i = 0; i < nr; i++) { R[i] = (char)nondet_u8(); ASSUME(R[i] != 0); }
    L[nl] = 0; R[nr] = 0;
    char NL[6], NR[6]; unsigned kl = 0, kr = 0;
    for (unsigned i = 0; i < nl; i++) { char c = L[i]; if (c >= 'A' && c <= 'Z') c = (char)(c - 'A' + 'a'); if ((c >= 'a' && c <= 'z') || (c >= '0' && c <= '9')) NL[kl++] = c; }
    for (unsigned i = 0; i < nr; i++) { char c = R[i]; if (c >= 'A' && c <= 'Z') c = (char)(c - 'A' + 'a'); if ((c >= 'a' && c <= 'z') || (c >= '0' && c <= '9')) NR[kr++] = c; }
    bool less = false, decided = false;
    for (unsigned i = 0; !decided && (i < kl || i < kr); i++) {
        if (i >= kl) { less = true; decided = true; }
        else if (i >= kr) { less = false; decided = true; }
        else if (NL[i] != NR[i]) { less = NL[i] < NR[i]; decided = true; }
    }
    cppcms::encoding::impl::encodings_comparator cmp;
    bool lr = cmp((char const *)L, (char const *)R);
    bool rl = cmp((char const *)R, (char const *)L);
    CHECKM(lr == less, "comparator differs from lexicographic order of the normalised names");
    CHECKM(!(lr && rl), "comparator is not asymmetric");
    if (!lr && !rl) { CHECKM(kl == kr, "names with different normalised forms compare equivalent"); WITNESS("equivalent"); }
    if (lr) WITNESS("less");
    VERIF_END();
}

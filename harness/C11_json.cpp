// C11.c: JSON typed extraction (cppcms/json.h, traits<integer>::get), real code.
// json::value::number() is a stub returning a symbolic double; decided: get() returns exactly the
// stored number or throws bad_value_cast -- never a truncated or wrapped value.
#include "verif_std.h"
#define private public
#define protected public
#include <cppcms/json.h>
#undef private
#undef protected
#include "verif.h"

static double g_d;
#ifndef VERIF_NATIVE
namespace cppcms { namespace json {
double const &value::number() const { return g_d; }
bad_value_cast::bad_value_cast() : msg_("cppcms::json::bad_cast") {}
bad_value_cast::~bad_value_cast() throw() {}
const char *bad_value_cast::what() const throw() { return "cppcms::json::bad_cast"; }
}}
#endif

template<typename T> static void check_get(cppcms::json::value const &v, double lo, double hi_excl)
{
    double d = g_d;
    bool thrown = false;
    T r = 0;
    try { r = cppcms::json::traits<T>::get(v); } catch (cppcms::json::bad_value_cast const &) { thrown = true; }
    // reference: exact iff d is finite, integral and within [lo, hi_excl)
    bool in_range = d >= lo && d < hi_excl;     // false for NaN
    bool integral = in_range && (double)(long long)d == d;
    if (hi_excl > 9.3e18) integral = in_range && (d < 9223372036854775808.0 ? (double)(long long)d == d : (double)(unsigned long long)d == d);
    if (!thrown) {
        CHECKM(in_range && integral, "typed extraction returned a value for a number that is not exactly representable in the target type");
        CHECKM((double)r == d, "typed extraction returned a different number");
        WITNESS("exact");
    } else {
        CHECKM(!(in_range && integral), "exactly representable number refused");
        WITNESS("bad_value_cast");
    }
}
extern "C" void h_c11c_typed_get()
{
    unsigned which = verif_param(0);
    g_d = nondet_double();
#ifdef VERIF_NATIVE
    cppcms::json::value &v = *new cppcms::json::value();
    v.number(g_d);
#else
    static long long raw[8];
    cppcms::json::value &v = *(cppcms::json::value *)(void *)raw;
#endif
    switch (which) {
    case 0: check_get<signed char>(v, -128.0, 128.0); break;
    case 1: check_get<unsigned char>(v, 0.0, 256.0); break;
    case 2: check_get<short>(v, -32768.0, 32768.0); break;
    case 3: check_get<unsigned short>(v, 0.0, 65536.0); break;
    case 4: check_get<int>(v, -2147483648.0, 2147483648.0); break;
    case 5: check_get<unsigned int>(v, 0.0, 4294967296.0); break;
    case 6: check_get<long long>(v, -9223372036854775808.0, 9223372036854775808.0); break;
    default: check_get<unsigned long long>(v, 0.0, 18446744073709551616.0); break;
    }
    VERIF_END();
}

// C17.b: worker pool (src/thread_pool.cpp, impl::thread_pool), real code.  No threads are run:
// every access to the shared state is inside one mutex, so the behaviours are the sequences of
// critical sections, explored here as symbolic operation sequences.  Mutex / condition variable
// are ghost stubs (models/stubs_c17.c); logging of escaped exceptions is disabled.
#include "verif_std.h"
#define private public
#define protected public
#include "src/thread_pool.cpp"
#undef private
#undef protected
#include "verif.h"

#ifndef VERIF_K
#define VERIF_K 4
#endif
typedef cppcms::impl::thread_pool pool_t;
static unsigned g_ran[VERIF_K]; static bool g_throws[VERIF_K]; static bool g_ran_locked;
static pool_t *g_pool;
extern "C" unsigned verif_lock_depth_get() noexcept;
#ifndef VERIF_NATIVE
extern "C" unsigned F_verif_lock_depth_decl();
#endif
extern "C" int verif_lock_depth;
struct job_t {
    unsigned idx;
    void operator()() const {
        g_ran[idx]++;
        if (verif_lock_depth != 0) g_ran_locked = true;
        if (g_throws[idx]) throw std::runtime_error("job failed");
    }
};
// condition_variable::wait: nothing else will happen -> the pool is told to stop, the worker returns
extern "C" __attribute__((noinline)) void verif_cond_wait() { g_pool->shut_down_ = true; }
#ifndef VERIF_NATIVE
namespace booster { namespace log {
bool logger::should_be_logged(level_type, char const *) { return false; }
logger &logger::instance() { static long long raw[64]; return *(logger *)(void *)raw; }
}}
#endif

extern "C" void h_c17b_exactly_once()
{
#ifndef VERIF_NATIVE
    static long long raw[(sizeof(pool_t) + 7) / 8];
    pool_t *p = (pool_t *)(void *)raw; g_pool = p;
    new (&p->queue_) pool_t::queue_type();
    p->shut_down_ = false; p->job_id_ = 0;
    int id_of[VERIF_K]; bool posted[VERIF_K], cancelled[VERIF_K];
    for (int i = 0; i < VERIF_K; i++) { g_ran[i] = 0; g_throws[i] = nondet_bool(); posted[i] = false; cancelled[i] = false; id_of[i] = -1; }
    g_ran_locked = false;
    unsigned next_job = 0;
    for (int step = 0; step < VERIF_K; step++) {
        unsigned op = nondet_u8();
        ASSUME(op < 3);
        if (op == 0 && next_job < VERIF_K) {                 // post
            job_t j; j.idx = next_job;
            id_of[next_job] = p->post(booster::function<void()>(j));
            posted[next_job] = true; next_job++;
        } else if (op == 1) {                                 // cancel(id) for ANY int id: a posted job's or not
            int id = (int)nondet_u32();
            int k = -1;
            for (int i = 0; i < VERIF_K; i++) if (posted[i] && id_of[i] == id) k = i;
            bool c = p->cancel(id);
            if (k >= 0 && !cancelled[k]) {
                unsigned before = g_ran[k];
                if (c) { CHECKM(before == 0, "cancel succeeded for a job that had already run"); cancelled[k] = true; WITNESS("cancelled"); }
                else CHECKM(before == 1, "cancel failed for a job that is still queued");
            } else {
                // the id names no job, or one cancelled before: nothing is queued under it
                CHECKM(!c, "cancel reported success for an id under which no job is queued");
                if (k < 0) WITNESS("cancel of an unknown id");
            }
        } else {                                              // a worker runs until it would block
            p->shut_down_ = false;
            p->worker();
            p->shut_down_ = false;
            for (int i = 0; i < VERIF_K; i++) if (posted[i] && !cancelled[i]) CHECKM(g_ran[i] == 1, "queued job not run exactly once by the time the worker blocks (a throwing job stopped the worker?)");
            WITNESS("worker drained");
        }
        for (int i = 0; i < VERIF_K; i++) {
            CHECKM(g_ran[i] <= 1, "job ran more than once");
            if (cancelled[i]) CHECKM(g_ran[i] == 0, "cancelled job ran");
        }
        CHECKM(verif_lock_depth == 0, "mutex still held after the operation");
    }
    CHECKM(!g_ran_locked, "a job ran while the pool mutex was held");
    WITNESS("sequence");
#else
    WITNESS("native: model-only obligation");
#endif
    VERIF_END();
}

// C17.c: a stopped pool runs nothing; jobs posted before the stop are never run twice, and a pool
// that keeps running afterwards (flag cleared = a pool that was not stopped) runs each exactly once.
extern "C" void h_c17c_stop()
{
#ifndef VERIF_NATIVE
    static long long raw[(sizeof(pool_t) + 7) / 8];
    pool_t *p = (pool_t *)(void *)raw; g_pool = p;
    new (&p->queue_) pool_t::queue_type();
    p->shut_down_ = false; p->job_id_ = 0;
    for (int i = 0; i < VERIF_K; i++) { g_ran[i] = 0; g_throws[i] = nondet_bool(); }
    job_t a; a.idx = 0; job_t b; b.idx = 1;
    int ia = p->post(booster::function<void()>(a));
    int ib = p->post(booster::function<void()>(b));
    CHECKM(ia != ib, "two posts received the same job id");
    bool stopped = nondet_bool();
    p->shut_down_ = stopped;
    p->worker();
    if (stopped) { CHECKM(g_ran[0] == 0 && g_ran[1] == 0, "a stopped pool ran a job"); WITNESS("stopped"); }
    else { CHECKM(g_ran[0] == 1 && g_ran[1] == 1, "running pool did not run each queued job exactly once"); WITNESS("ran"); }
    p->shut_down_ = false;
    p->worker();
    CHECKM(g_ran[0] == 1 && g_ran[1] == 1, "job lost or run twice");
    CHECKM(verif_lock_depth == 0, "mutex still held");
#else
    WITNESS("native: model-only obligation");
#endif
    VERIF_END();
}

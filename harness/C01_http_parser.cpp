// C01.a: HTTP header tokenizer (private/http_parser.h), real code: the sequence of results and
// header lines does not depend on how the byte stream is cut into read buffers.
#include "verif_std.h"
#define private public
#define protected public
#include "http_parser.h"
#undef private
#undef protected
#include "verif.h"

typedef cppcms::http::impl::parser parser;
struct trace_t { unsigned n; int code[8]; unsigned hl[8]; unsigned char hb[8][8]; };
static void drain(parser &p, trace_t &t)
{
    // step() until it asks for more data or fails (bounded: every result consumes input)
    for (int i = 0; i < 8; i++) {
        int r = p.step();
        if (r == parser::more_data) return;
        if (t.n < 8) {
            t.code[t.n] = r;
            t.hl[t.n] = p.header_.size();
            for (unsigned j = 0; j < p.header_.size() && j < 8; j++) t.hb[t.n][j] = p.header_[j];
        }
        t.n++;
        if (r == parser::error_observerd || r == parser::end_of_headers) return;
    }
}
extern "C" void h_c01a_chunking()
{
    unsigned n = verif_param(0);
    unsigned char s[8];
    for (unsigned i = 0; i < n; i++) s[i] = nondet_u8();
    unsigned k = nondet_u8();
    ASSUME(k <= n);
    trace_t A, B; A.n = 0; B.n = 0;
    {   // one buffer
        std::vector<char> &body = *new std::vector<char>(s, s + n);
        unsigned &ptr = *new unsigned(0);
        parser &p = *new parser(body, ptr);
        drain(p, A);
    }
    {   // two buffers, refilled the way http::some_headers_data_read does after more_data
        std::vector<char> &body = *new std::vector<char>(s, s + k);
        unsigned &ptr = *new unsigned(0);
        parser &p = *new parser(body, ptr);
        drain(p, B);
        bool stopped = B.n > 0 && (B.code[B.n - 1] == parser::error_observerd || B.code[B.n - 1] == parser::end_of_headers);
        if (!stopped) {
            body.assign(s + k, s + n);
            ptr = 0;
            drain(p, B);
        }
    }
    // a terminal event in the first buffer of B must also be what A saw first
    CHECKM(A.n == B.n, "number of tokenizer events depends on the cut");
    for (unsigned i = 0; i < A.n && i < 8; i++) {
        CHECKM(A.code[i] == B.code[i], "event kind depends on the cut");
        if (A.code[i] == parser::got_header) {
            CHECKM(A.hl[i] == B.hl[i], "header line length depends on the cut");
            for (unsigned j = 0; j < A.hl[i] && j < 8; j++) CHECKM(A.hb[i][j] == B.hb[i][j], "header line content depends on the cut");
        }
    }
    if (A.n > 0 && A.code[0] == parser::got_header) WITNESS("header line");
    if (A.n > 0 && A.code[A.n - 1] == parser::end_of_headers) WITNESS("end of headers");
    WITNESS("compared");
    VERIF_END();
}

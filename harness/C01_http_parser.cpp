// C01.a: HTTP header tokenizer (private/http_parser.h), real code: the sequence of results and
// header lines does not depend on how the byte stream is cut into read buffers.
#include "verif_std.h"
#define private public
#define protected public
#include "http_parser.h"
#undef private
#undef protected
#include "verif.h"

typedef cppcms::http::impl::parser parser;
struct trace_t { unsigned n; int code[8]; unsigned hl[8]; unsigned char hb[8][8]; };
static void drain(parser &p, trace_t &t)
{
    // step() until it asks for more data or fails (bounded: every result consumes input)
    for (int i = 0; i < 8; i++) {
        int r = p.step();
        if (r == parser::more_data) return;
        if (t.n < 8) {
            t.code[t.n] = r;
            t.hl[t.n] = p.header_.size();
            for (unsigned j = 0; j < p.header_.size() && j < 8; j++) t.hb[t.n][j] = p.header_[j];
        }
        t.n++;
        if (r == parser::error_observerd || r == parser::end_of_headers) return;
    }
}
extern "C" void h_c01a_chunking()
{
    unsigned n = verif_param(0);
    unsigned char s[8];
    for (unsigned i = 0; i < n; i++) s[i] = nondet_u8();
    unsigned k = nondet_u8();
    ASSUME(k <= n);
    trace_t A, B; A.n = 0; B.n = 0;
    {   // one buffer
        std::vector<char> &body = *new std::vector<char>(s, s + n);
        unsigned &ptr = *new unsigned(0);
        parser &p = *new parser(body, ptr);
        drain(p, A);
    }
    {   // two buffers, refilled the way http::some_headers_data_read does after more_data
        std::vector<char> &body = *new std::vector<char>(s, s + k);
        unsigned &ptr = *new unsigned(0);
        parser &p = *new parser(body, ptr);
        drain(p, B);
        bool stopped = B.n > 0 && (B.code[B.n - 1] == parser::error_observerd || B.code[B.n - 1] == parser::end_of_headers);
        if (!stopped) {
            body.assign(s + k, s + n);
            ptr = 0;
            drain(p, B);
        }
    }
    // a terminal event in the first buffer of B must also be what A saw first
    CHECKM(A.n == B.n, "number of tokenizer events depends on the cut");
    for (unsigned i = 0; i < A.n && i < 8; i++) {
        CHECKM(A.code[i] == B.code[i], "event kind depends on the cut");
        if (A.code[i] == parser::got_header) {
            CHECKM(A.hl[i] == B.hl[i], "header line length depends on the cut");
            for (unsigned j = 0; j < A.hl[i] && j < 8; j++) CHECKM(A.hb[i][j] == B.hb[i][j], "header line content depends on the cut");
        }
    }
    if (A.n > 0 && A.code[0] == parser::got_header) WITNESS("header line");
    if (A.n > 0 && A.code[A.n - 1] == parser::end_of_headers) WITNESS("end of headers");
    WITNESS("compared");
    VERIF_END();
}

// C01.f: the tokenizer's byte source (parser::getc / ungetc), both buffer forms: getc returns the next
// byte of the stream as 0..255, -1 exactly when the buffer is exhausted (never for a data byte), and a
// byte given back with ungetc is the next one returned -- across the point where the vector form
// clears its buffer.  (step() itself is not encoded: see DESIGN.md.)
struct open_parser : public parser {
    open_parser(std::vector<char> &b, unsigned &p) : parser(b, p) {}
    open_parser(char const *&a, char const *&b, char const *&c) : parser(a, b, c) {}
    int g() { return getc(); }
    void u(int c) { ungetc(c); }
};
extern "C" void h_c01f_byte_source()
{
    unsigned n = verif_param(0);
    bool vec = verif_param(1) != 0;
    unsigned char s[4];
    for (unsigned i = 0; i < n; i++) s[i] = nondet_u8();
    std::vector<char> &body = *new std::vector<char>(s, s + n);
    unsigned &ptr = *new unsigned(0);
    char *flat = (char *)malloc(n ? n : 1);
    for (unsigned i = 0; i < n; i++) flat[i] = (char)s[i];
    char const *&pb = *new char const *(flat), *&pp = *new char const *(flat), *&pe = *new char const *(flat + n);
    open_parser &p = vec ? *new open_parser(body, ptr) : *new open_parser(pb, pp, pe);
    // reference: position in s plus a stack of bytes given back
    unsigned pos = 0; int back[4]; unsigned nb = 0;
    int last = -1;
    for (unsigned k = 0; k < 4; k++) {
        bool unget = nondet_bool();
        if (unget && last >= 0) {
            p.u(last);
            back[nb++] = last;
            last = -1;
        } else {
            int exp;
            if (nb > 0) exp = back[--nb];
            else if (pos < n) exp = s[pos++];
            else exp = -1;
            int r = p.g();
            CHECKM(r == exp, "getc differs from the next byte of the stream (0..255) / -1 at the end");
            if (r >= 128) WITNESS("high byte");
            if (r < 0) WITNESS("exhausted");
            last = r;
        }
    }
    WITNESS("done");
    VERIF_END();
}

// C01.g: parser::step(), differential over the cut, from an *arbitrary* tokenizer state (inductive over
// the byte stream): feeding two bytes in one read buffer and in two read buffers (refilled the way
// http::some_headers_data_read does: resize + ptr=0) yields the same events, header lines and final
// state.  Covers the push-back of the look-ahead byte (LWS folding) across a buffer boundary.
struct ev_t { unsigned n; int code[4]; unsigned hl[4]; unsigned char hb[4][4]; };
static void drain2(parser &p, ev_t &t, int max)
{
    for (int i = 0; i < max; i++) {
        int r = p.step();
        if (r == parser::more_data) return;
        if (t.n < 4) {
            t.code[t.n] = r;
            t.hl[t.n] = p.header_.size();
            for (unsigned j = 0; j < 4; j++) t.hb[t.n][j] = j < p.header_.size() ? p.header_[j] : 0;
        }
        t.n++;
        if (r == parser::error_observerd || r == parser::end_of_headers) return;
    }
}
static parser &arbitrary_parser(std::vector<char> &body, unsigned &ptr, unsigned st, unsigned bc, unsigned char h0, unsigned char h1)
{
    parser &p = *new parser(body, ptr);
    p.state_ = (decltype(p.state_))st;
    p.bracket_counter_ = bc;
    p.header_.push_back((char)h0); p.header_.push_back((char)h1);
    return p;
}
extern "C" void h_c01g_step_cut()
{
    unsigned st = verif_param(0);
    unsigned bc = nondet_u8(); ASSUME(bc <= 2);
    unsigned char h0 = nondet_u8(), h1 = nondet_u8(), b0 = nondet_u8(), b1 = nondet_u8();
    ev_t A, B; A.n = 0; B.n = 0;
    std::vector<char> &ba = *new std::vector<char>(); ba.reserve(4); ba.push_back((char)b0); ba.push_back((char)b1);
    unsigned &pa = *new unsigned(0);
    parser &P = arbitrary_parser(ba, pa, st, bc, h0, h1);
    drain2(P, A, 3);
    std::vector<char> &bb = *new std::vector<char>(); bb.reserve(4); bb.push_back((char)b0);
    unsigned &pb = *new unsigned(0);
    parser &Q = arbitrary_parser(bb, pb, st, bc, h0, h1);
    drain2(Q, B, 2);
    bool stopped = B.n > 0 && B.n <= 4 && (B.code[B.n - 1] == parser::error_observerd || B.code[B.n - 1] == parser::end_of_headers);
    if (!stopped) {
        bb.resize(1); bb[0] = (char)b1; pb = 0;
        drain2(Q, B, 3);
    }
    CHECKM(A.n == B.n, "number of tokenizer events depends on the cut");
    for (unsigned i = 0; i < A.n && i < 4; i++) {
        CHECKM(A.code[i] == B.code[i], "event kind depends on the cut");
        if (A.code[i] == parser::got_header) {
            CHECKM(A.hl[i] == B.hl[i], "header line length depends on the cut");
            for (unsigned j = 0; j < 4; j++) CHECKM(A.hb[i][j] == B.hb[i][j], "header line content depends on the cut");
            WITNESS("header line");
        }
    }
    bool a_stopped = A.n > 0 && A.n <= 4 && (A.code[A.n - 1] == parser::error_observerd || A.code[A.n - 1] == parser::end_of_headers);
    if (!a_stopped) {
        CHECKM(P.state_ == Q.state_ && P.bracket_counter_ == Q.bracket_counter_, "tokenizer state after the two bytes depends on the cut");
        CHECKM(P.header_.size() == Q.header_.size(), "pending header text depends on the cut");
        WITNESS("both consumed");
    }
    VERIF_END();
}

// C18.d: file-backed session storage, payloads of any size (src/session_posix_file_storage.cpp,
// private/crc32.h), real code.  No per-byte loop is executed: zlib's crc32() and write() are
// recorders defined here, so the payload length is a symbolic 31-bit number and the obligation is
// about *which bytes* are checksummed and written, in which order -- the part of the on-disk format
// that C18.a/b (payloads <= 4 bytes) cannot see.
#include "verif_std.h"
#include <unistd.h>
#include <fcntl.h>
#include <sys/stat.h>
#include <sys/mman.h>
#include <dirent.h>
#include <pthread.h>
#define private public
#define protected public
#include "src/session_posix_file_storage.cpp"
#undef private
#undef protected
#include "verif.h"

// ---- crc32 recorder: an arbitrary chained function; checks that the calls walk [exp_ptr, exp_ptr+exp_left)
static unsigned char const *exp_ptr;
static unsigned long long exp_left;
static unsigned long crc_state;
static unsigned crc_calls;
static bool crc_bad;
// ---- write recorder
static unsigned char hdr[16];
static unsigned wr_calls;
static void const *wr_ptr[3];
static unsigned long long wr_len[3];
static long long now_value;

extern "C" {
__attribute__((noinline)) uLong crc32(uLong crc, const Bytef *buf, uInt len)
{
    if (crc != crc_state) crc_bad = true;                    // not continued from the previous result
    if (buf != exp_ptr) crc_bad = true;                      // not the next unprocessed byte
    if ((unsigned long long)len > exp_left) crc_bad = true;  // beyond the payload
    if (len == 0) crc_bad = crc_bad;
    exp_ptr += len;
    exp_left -= (unsigned long long)len <= exp_left ? len : exp_left;
    crc_calls++;
    crc_state = nondet_u32();
    return crc_state;
}
#ifdef VERIF_NATIVE
__attribute__((noinline)) ssize_t write(int fd, const void *buf, size_t n)
{
    if (fd == 1 || fd == 2) return (ssize_t)syscall(1, fd, buf, n);
#else
__attribute__((noinline)) ssize_t write(int fd, const void *buf, size_t n)
{
    (void)fd;
#endif
    if (wr_calls < 3) {
        wr_ptr[wr_calls] = buf;
        wr_len[wr_calls] = n;
        if (wr_calls == 0 && n == 16) for (unsigned i = 0; i < 16; i++) hdr[i] = ((unsigned char const *)buf)[i];
    }
    wr_calls++;
    return (ssize_t)n;   // the kernel accepts everything (short writes: C18.b)
}
#ifndef VERIF_NATIVE
ssize_t read(int fd, void *buf, size_t n) { (void)fd; (void)buf; (void)n; return 0; }
off_t lseek(int fd, off_t off, int whence) { (void)fd; (void)whence; return off; }
time_t time(time_t *t) { if (t) *t = (time_t)now_value; return (time_t)now_value; }
#endif
}

typedef cppcms::sessions::session_file_storage storage;
static storage *raw_storage()
{
    static long long raw[(sizeof(storage) + 7) / 8];
    return (storage *)(void *)raw;
}
static unsigned char payload_base[16];

// crc32_calc::process_bytes over k arbitrary ranges: the checksum state is threaded through every
// zlib call, every byte of every range is fed exactly once, in order, and checksum() is the last state
extern "C" void h_c18d_crc_feed()
{
    cppcms::impl::crc32_calc &c = *new cppcms::impl::crc32_calc();
    crc_state = 0; crc_bad = false; crc_calls = 0;
    for (unsigned k = 0; k < 2; k++) {
        unsigned long long n = nondet_u32();
        ASSUME(n < 0x80000000ull);
        unsigned long long off = nondet_u32();
        exp_ptr = payload_base + off; exp_left = n;
        unsigned before = crc_calls;
        c.process_bytes(payload_base + off, (size_t)n);
        CHECKM(!crc_bad, "crc32 fed with a range that is not the next unprocessed bytes, or not continued from the previous state");
        CHECKM(exp_left == 0, "crc32 did not cover the whole range");
        if (n > 0) CHECKM(crc_calls > before, "non-empty range never reached crc32");
        CHECKM(c.checksum() == (uint32_t)crc_state, "checksum() is not the state after the last byte");
        if (n > 4096) WITNESS("more than one page fed");
    }
    VERIF_END();
}

// save_to_file with a payload of any length < 2^31: header = {timeout, crc of exactly the payload,
// length}, written first as one 16-byte unit, then the payload from its first byte
extern "C" void h_c18d_save_large()
{
    storage *st = raw_storage();
    unsigned long long n = nondet_u32();
    ASSUME(n < 0x80000000ull);
    long long t = (long long)nondet_u64();
    std::string &s = *new std::string();
    // a string of n bytes without materialising them: nothing below reads the bytes
    s._M_dataplus._M_p = (char *)payload_base;
    s._M_string_length = n;
    s._M_allocated_capacity = n;
    crc_state = 0; crc_bad = false; crc_calls = 0; wr_calls = 0;
    exp_ptr = payload_base; exp_left = n;
    st->save_to_file(3, (time_t)t, s);
    CHECKM(!crc_bad && exp_left == 0, "checksum in the header does not cover exactly the payload bytes in order");
    CHECKM(wr_calls >= 1 && wr_len[0] == 16, "header not written first as one 16-byte unit");
    long long ht = 0; unsigned hc = 0, hs = 0;
    for (int i = 7; i >= 0; i--) ht = (long long)(((unsigned long long)ht << 8) | hdr[i]);
    for (int i = 11; i >= 8; i--) hc = (hc << 8) | hdr[i];
    for (int i = 15; i >= 12; i--) hs = (hs << 8) | hdr[i];
    CHECKM(ht == t, "header timeout differs from the one saved");
    CHECKM(hs == (unsigned)n, "header length differs from the payload length");
    CHECKM(hc == (n ? (unsigned)crc_state : 0u), "header checksum is not the checksum of the payload");
    if (n > 0) {
        CHECKM(wr_calls == 2 && wr_ptr[1] == (void const *)payload_base && wr_len[1] == n, "payload not written as exactly its n bytes from the first");
        WITNESS("payload written");
        if (n > 70000) WITNESS("large payload");
    } else {
        CHECKM(wr_calls == 1, "empty payload wrote something after the header");
        WITNESS("empty payload");
    }
    VERIF_END();
}

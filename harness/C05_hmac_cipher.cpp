// C05: signed client-side session cookies (src/hmac_encryptor.cpp), real code.
// crypto::hmac is replaced by an opaque MAC model defined here: append() records what is
// authenticated, readout() hands out an arbitrary digest.  What is decided is that the cipher
// authenticates exactly the right bytes, compares the whole tag, and returns exactly the
// authenticated bytes.  (MAC unforgeability itself is an assumption, not a solver question.)
#include "verif_std.h"
#define private public
#define protected public
#include "src/hmac_encryptor.cpp"
#undef private
#undef protected
#include "verif.h"

#ifndef VERIF_D
#define VERIF_D 4
#endif
static unsigned char g_fed[2][24]; static unsigned g_fed_n[2]; static unsigned char g_dig[2][VERIF_D]; static unsigned g_macs, g_readouts;
#ifndef VERIF_NATIVE
namespace cppcms { namespace crypto {
key::key() : data_(0), size_(0) {}
key::key(key const &o) : data_(0), size_(o.size_) {}
key::key(void const *, size_t n) : data_(0), size_(n) {}
key::~key() {}
size_t key::size() const { return size_; }
hmac::hmac(std::string const &, key const &k) : key_(k) { if (g_macs < 2) g_fed_n[g_macs] = 0; g_macs++; }
hmac::~hmac() {}
unsigned hmac::digest_size() const { return VERIF_D; }
void hmac::append(void const *p, size_t n)
{
    unsigned m = g_macs - 1;
    for (size_t i = 0; i < n; i++) { if (m < 2 && g_fed_n[m] < 24) g_fed[m][g_fed_n[m]] = ((unsigned char const *)p)[i]; if (m < 2) g_fed_n[m]++; }
}
void hmac::readout(void *out)
{
    unsigned m = g_macs - 1;
    for (unsigned i = 0; i < VERIF_D; i++) { unsigned char d = nondet_u8(); if (m < 2) g_dig[m][i] = d; ((unsigned char *)out)[i] = d; }
    g_readouts++;
}
}}
#endif
typedef cppcms::sessions::impl::hmac_cipher hmac_cipher;
static hmac_cipher *raw_cipher()
{
    static long long raw[(sizeof(hmac_cipher) + 7) / 8];
    hmac_cipher *c = (hmac_cipher *)(void *)raw;
    new (&c->hash_) std::string("sha1", 4);
    c->key_.size_ = 16; c->key_.data_ = 0;
    return c;
}

// C05.a: decrypt(cipher) is true exactly when the last D bytes equal the MAC of the preceding
// bytes; then plain is exactly those preceding bytes; shorter inputs are rejected.
extern "C" void h_c05a_decrypt()
{
#ifndef VERIF_NATIVE
    unsigned n = verif_param(0);
    hmac_cipher *c = raw_cipher();
    unsigned char *buf = (unsigned char *)malloc(n ? n : 1);
    for (unsigned i = 0; i < n; i++) buf[i] = nondet_u8();
    std::string cipher((char const *)buf, n), plain("?");
    plain.reserve(40);
    g_macs = 0; g_readouts = 0;
    bool ok = c->hmac_cipher::decrypt(cipher, plain);
    if (n < VERIF_D) { CHECKM(!ok, "cipher text shorter than the tag accepted"); WITNESS("too short"); }
    else {
        unsigned m = n - VERIF_D;
        CHECKM(g_macs == 1 && g_readouts == 1 && g_fed_n[0] == m, "MAC not computed over exactly the bytes before the tag");
        for (unsigned i = 0; i < m; i++) CHECKM(g_fed[0][i] == buf[i], "MAC computed over different bytes");
        bool tag_ok = true;
        for (unsigned i = 0; i < VERIF_D; i++) if (buf[m + i] != g_dig[0][i]) tag_ok = false;
        CHECKM(ok == tag_ok, "accept/reject differs from: every tag byte equals the MAC");
        if (ok) {
            CHECKM(plain.size() == m, "plain text length differs from the authenticated length");
            for (unsigned i = 0; i < m; i++) CHECKM((unsigned char)plain[i] == buf[i], "plain text differs from the authenticated bytes");
            WITNESS("accepted");
        } else { CHECKM(plain.size() == 1 && plain[0] == '?', "output modified although the cookie was rejected"); WITNESS("rejected"); }
    }
#else
    WITNESS("native: model-only obligation");
#endif
    VERIF_END();
}

// C05.a2: decrypt(encrypt(p)) == p when the MAC is a function of the message
extern "C" void h_c05a_roundtrip()
{
#ifndef VERIF_NATIVE
    unsigned n = verif_param(0);
    hmac_cipher *c = raw_cipher();
    unsigned char p[8];
    for (unsigned i = 0; i < n; i++) p[i] = nondet_u8();
    g_macs = 0; g_readouts = 0;
    std::string ct = c->hmac_cipher::encrypt(std::string((char const *)p, n));
    CHECKM(ct.size() == n + VERIF_D, "cipher text length differs from message + tag");
    for (unsigned i = 0; i < n; i++) CHECKM((unsigned char)ct[i] == p[i], "cipher text does not start with the message");
    for (unsigned i = 0; i < VERIF_D; i++) CHECKM((unsigned char)ct[n + i] == g_dig[0][i], "tag differs from the MAC");
    std::string plain("?");
    plain.reserve(40);
    bool ok = c->hmac_cipher::decrypt(ct, plain);
    // the model hands out a fresh digest per readout; a MAC is a function: same message => same digest
    bool same_msg = g_fed_n[0] == g_fed_n[1];
    for (unsigned i = 0; i < n; i++) if (g_fed[0][i] != g_fed[1][i]) same_msg = false;
    CHECKM(same_msg, "decrypt authenticates different bytes than encrypt did");
    bool same_dig = true;
    for (unsigned i = 0; i < VERIF_D; i++) if (g_dig[0][i] != g_dig[1][i]) same_dig = false;
    ASSUME(same_dig);
    CHECKM(ok && plain.size() == n, "own cipher text rejected");
    for (unsigned i = 0; i < n; i++) CHECKM((unsigned char)plain[i] == p[i], "round trip changed the payload");
    WITNESS("round trip");
#else
    WITNESS("native: model-only obligation");
#endif
    VERIF_END();
}

// C05.d: configuration guard: keys shorter than 16 bytes are refused
extern "C" void h_c05d_key_guard()
{
#ifndef VERIF_NATIVE
    cppcms::crypto::key k;
    k.size_ = nondet_u64();
    bool thrown = false;
    try { hmac_cipher *c = new hmac_cipher(std::string("sha1", 4), k); (void)c; } catch (cppcms::cppcms_error const &) { thrown = true; }
    CHECKM(thrown == (k.size_ < 16), "hmac_cipher accepts/refuses key sizes differently from the 16-byte minimum");
    if (thrown) WITNESS("refused"); else WITNESS("accepted");
#else
    WITNESS("native: model-only obligation");
#endif
    VERIF_END();
}

// C06.c: session data packing (src/session_interface.cpp: packed, load_data, save_data), real code with the
// real std::map.  load_data on arbitrary bytes (what a storage backend or a decrypted cookie hands over)
// either throws cppcms_error or the records tile the text exactly and every record is in the map (last
// one wins); nothing is read outside the text.  save_data then load_data reproduces keys, values and
// exposed flags.
#include "verif_std.h"
#define private public
#define protected public
#include "src/session_interface.cpp"
#undef private
#undef protected
#include "verif.h"

typedef cppcms::session_interface si_t;
static si_t *raw_si() { static long long raw[(sizeof(si_t) + 7) / 8]; return (si_t *)(void *)raw; }

extern "C" void h_c06c_load_arbitrary()
{
    unsigned n = verif_param(0);
    unsigned char *b = (unsigned char *)malloc(n ? n : 1);
    for (unsigned i = 0; i < n; i++) b[i] = nondet_u8();
    std::string &s = *new std::string((char const *)b, n);
    si_t::data_type &m = *new si_t::data_type();
    bool thrown = false;
    try { raw_si()->load_data(m, s); } catch (cppcms::cppcms_error const &) { thrown = true; }
    // reference parse: header = little-endian 32 bits: key_size:10, exposed:1, data_size:21
    unsigned pos = 0, recs = 0; bool ok = true;
    unsigned lk = 0, lkn = 0, lv = 0, lvn = 0, lexp = 0;
    while (pos < n && recs < 4) {
        if (pos + 4 > n) { ok = false; break; }
        unsigned h = b[pos] | (b[pos + 1] << 8) | (b[pos + 2] << 16) | ((unsigned)b[pos + 3] << 24);
        unsigned ks = h & 1023, ex = (h >> 10) & 1, ds = h >> 11;
        pos += 4;
        if (n - pos < ks + ds) { ok = false; break; }
        lk = pos; lkn = ks; lv = pos + ks; lvn = ds; lexp = ex;
        pos += ks + ds;
        recs++;
    }
    CHECKM(thrown == !ok, "load_data accepts/rejects differently from: records tile the text exactly");
    if (!thrown) {
        CHECKM(m.size() <= recs && (recs == 0) == m.empty(), "number of entries inconsistent with the records");
        if (recs > 0) {
            std::string key((char const *)b + lk, lkn);
            si_t::data_type::const_iterator it = m.find(key);
            CHECKM(it != m.end(), "last record's key is missing");
            if (it != m.end()) {
                CHECKM(it->second.exposed == (lexp != 0), "exposed flag differs from the record");
                CHECKM(it->second.value.size() == lvn, "value length differs from the record");
                for (unsigned i = 0; i < lvn && i < 8; i++) CHECKM((unsigned char)it->second.value[i] == b[lv + i], "value differs from the record");
            }
            WITNESS("loaded");
            if (recs == 2) WITNESS("two records");
        } else WITNESS("empty");
    } else WITNESS("rejected");
    VERIF_END();
}

// C12: multipart/form-data parser (private/multipart_parser.h), real code.
// http::file (src/http_file.cpp: temp files, fstream) is replaced by stubs
// defined here: the sink records the bytes the parser hands over.
#include "verif_std.h"
#define private public
#define protected public
#include "multipart_parser.h"
#undef private
#undef protected
#include "verif.h"

#ifndef VERIF_MAXCHUNK
#define VERIF_MAXCHUNK 2
#endif
#ifndef VERIF_NATIVE
template class std::basic_ios<char>;
template class std::basic_ostream<char>;
template class std::basic_istream<char>;
#endif

struct rec_buf : public std::streambuf {
    unsigned char data[16];
    unsigned n, limit;
    rec_buf() : n(0), limit(16) {}
    virtual int overflow(int c) {
        if (c == EOF) return 0;
        if (n >= limit || n >= sizeof(data)) return EOF;
        data[n++] = (unsigned char)c;
        return c;
    }
    virtual std::streamsize xsputn(char const *s, std::streamsize k) {
        std::streamsize i = 0;
        for (; i < k; i++) {
            if (n >= limit || n >= sizeof(data)) break;
            data[n++] = (unsigned char)s[i];
        }
        return i;
    }
};
static rec_buf *g_sink;
static std::ostream *g_out;
static std::istream *g_in;
static unsigned g_files_created;
static unsigned char g_name[8], g_filename[8], g_mime[8];
static unsigned g_name_n, g_filename_n, g_mime_n;
static bool g_name_set, g_filename_set, g_mime_set;

// ---- stubs for cppcms::http::file (the parser's only collaborator) ----
namespace cppcms { namespace http {
void file::set_temporary_directory(std::string const &) {}
void file::set_memory_limit(size_t) {}
std::ostream &file::write_data() { return *g_out; }
std::istream &file::data() { return *g_in; }
static void rec(std::string const &s, unsigned char *dst, unsigned &n, bool &set)
{
    set = true;
    n = s.size() < 8 ? s.size() : 8;
    for (unsigned i = 0; i < n; i++) dst[i] = s[i];
}
void file::name(std::string const &s) { rec(s, g_name, g_name_n, g_name_set); }
void file::filename(std::string const &s) { rec(s, g_filename, g_filename_n, g_filename_set); }
void file::mime(std::string const &s) { rec(s, g_mime, g_mime_n, g_mime_set); }
}}

static bool bchar(unsigned char c)
{
    return (c >= 'a' && c <= 'z') || (c >= 'A' && c <= 'Z') || (c >= '0' && c <= '9') || c == '\'' || c == '(' || c == ')' ||
           c == '+' || c == '_' || c == ',' || c == '-' || c == '.' || c == '/' || c == ':' || c == '=' || c == '?';
}

typedef cppcms::impl::multipart_parser mp;

// C12.a: boundary matcher, one inductive step.  The parser is in the part-content state with
// an arbitrary number q of boundary characters already matched (and not yet written); one
// consume() call receives a chunk of L arbitrary bytes.  With S = boundary[0..q) ++ chunk:
//   * if the delimiter occurs in S (first at j): content_ready, exactly the bytes up to the end
//     of that occurrence were consumed, and the sink received S[0..j);
//   * otherwise: content_partial, the whole chunk was consumed, position_ is the length of the
//     longest suffix of S that is a prefix of the delimiter, and the sink received the rest of S.
// By induction over chunks (base: q = 0, nothing written) the sink receives exactly the content
// that precedes the first delimiter, for every content and every segmentation.
#ifndef VERIF_NK
#define VERIF_NK 1
#endif
extern "C" void h_c12a_matcher_step()
{
    const unsigned nk = VERIF_NK, bs = 4 + VERIF_NK;
    unsigned q = verif_param(0);        // already matched prefix, 0..bs-1
    unsigned L = verif_param(1);        // chunk length
    // heavy objects live on the heap and are never destroyed: their destructors (and the
    // exception-cleanup paths that would run them) are not the subject
    rec_buf &sink = *new rec_buf(); g_sink = &sink;
    g_out = new std::ostream(&sink);
    g_in = new std::istream(&sink);
    unsigned char B[8] = {'\r', '\n', '-', '-'};
    for (unsigned i = 0; i < nk; i++) { B[4 + i] = nondet_u8(); ASSUME(bchar(B[4 + i])); }
    unsigned char S[16];
    for (unsigned i = 0; i < q; i++) S[i] = B[i];
    unsigned char *chunk = (unsigned char *)malloc(L);
    for (unsigned i = 0; i < L; i++) { chunk[i] = nondet_u8(); S[q + i] = chunk[i]; }
    unsigned n = q + L;
    mp &p = *new mp();
    p.boundary_ = std::string((char const *)B, bs);
    p.crlfcrlf_ = std::string("\r\n\r\n", 4);
    p.position_ = q;
    p.state_ = mp::expecting_separator_boundary;
    p.file_.reset(new cppcms::http::file());
    p.file_is_ready_ = true;
    // the sink (memory buffer or temporary file) may run out of room after any number of bytes
    unsigned limit = nondet_u8();
    ASSUME(limit <= 16);
    sink.limit = limit;
    char const *b = (char const *)chunk, *e = b + L;
    mp::parsing_result_type r = p.consume(b, e);
    // reference: first occurrence of B in S, and longest suffix of S that is a proper prefix of B
    int first = -1;
    for (unsigned j = 0; j + bs <= n; j++) {
        bool m = true;
        for (unsigned t = 0; t < bs; t++) if (S[j + t] != B[t]) m = false;
        if (m && first < 0) first = (int)j;
    }
    {
        // bytes that have to reach the sink during this call: the content before the delimiter, or
        // the stream minus the pending look-alike prefix
        unsigned ov0 = 0;
        for (unsigned k = 1; k < bs && k <= n; k++) {
            bool m = true;
            for (unsigned t = 0; t < k; t++) if (S[n - k + t] != B[t]) m = false;
            if (m) ov0 = k;
        }
        unsigned due = first >= 0 ? (unsigned)first : n - ov0;
        if (due > limit) {
            CHECKM(r == mp::no_room_left, "the sink refused content bytes but the upload was not refused (delivered in part)");
            WITNESS("sink full");
            VERIF_END();
        }
    }
    if (first >= 0) {
        CHECKM(r == mp::content_ready, "delimiter present in the stream but the part was not completed");
        unsigned consumed = b - (char const *)chunk;
        CHECKM(q + consumed == (unsigned)first + bs, "consumed bytes do not end at the first delimiter");
        CHECKM(sink.n == (unsigned)first, "bytes delivered differ in number from the content before the delimiter");
        for (unsigned i = 0; i < (unsigned)first && i < sizeof(sink.data); i++) CHECKM(sink.data[i] == S[i], "delivered byte differs from the content");
        CHECKM(p.position_ == 0 && p.state_ == mp::expecting_one_crlf_or_eof, "matcher state after the delimiter");
        CHECKM(p.files_.size() == 1 && !p.file_is_ready_, "part not handed over exactly once");
        WITNESS("delimiter found");
    } else {
        CHECKM(r == mp::content_partial, "no delimiter in the stream but the call did not report partial content");
        CHECKM(b == e, "chunk not fully consumed");
        unsigned ov = 0;
        for (unsigned k = 1; k < bs && k <= n; k++) {
            bool m = true;
            for (unsigned t = 0; t < k; t++) if (S[n - k + t] != B[t]) m = false;
            if (m) ov = k;
        }
        CHECKM(p.position_ == ov, "pending match length is not the longest suffix/prefix overlap");
        CHECKM(sink.n == n - ov, "bytes delivered differ in number from stream minus pending prefix");
        for (unsigned i = 0; i + ov < n && i < sizeof(sink.data); i++) CHECKM(sink.data[i] == S[i], "delivered byte differs from the stream");
        CHECKM(p.files_.size() == 0, "part handed over without a delimiter");
        WITNESS("no delimiter");
        if (ov > 0 && ov < q + 1 && L > 1) WITNESS("look-alike prefix pending");
    }
    VERIF_END();
}

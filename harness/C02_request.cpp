// C02.g: declared body size drives allocation (src/http_request.cpp, request::on_content_start), real code.
// request / request::_data are raw storage with the members the function touches constructed;
// the configured limits and the content-type classification are symbolic stubs.
#include "verif_std.h"
#define private public
#define protected public
#include "src/http_request.cpp"
#undef private
#undef protected
#include "verif.h"

static long long g_cl_limit, g_mp_limit;
static bool g_is_multipart;
namespace cppcms { namespace http {
long long content_limits::content_length_limit() const { return g_cl_limit; }
long long content_limits::multipart_form_data_limit() const { return g_mp_limit; }
bool content_type::is_multipart_form_data() const { return g_is_multipart; }
std::string content_limits::uploads_path() const { return std::string(); }
size_t content_limits::file_in_memory_limit() const { return 0; }
}}
using cppcms::http::request;

extern "C" void h_c02g_content_start()
{
    static long long raw_r[(sizeof(request) + 7) / 8], raw_d[(sizeof(request::_data) + 7) / 8];
    request *r = (request *)(void *)raw_r;
    request::_data *d = (request::_data *)(void *)raw_d;
    new (&d->post_data) std::vector<char>();
    new (&r->d) booster::hold_ptr<request::_data>(d);
    r->content_type_ready_ = true;
    d->filter_is_raw_content_filter = nondet_bool();
    d->read_full = false;
    d->content_length = (long long)nondet_u64();       // whatever atoll() made of the CONTENT_LENGTH header
    g_cl_limit = (long long)nondet_u64();
    g_mp_limit = (long long)nondet_u64();
    ASSUME(g_cl_limit >= 0 && g_cl_limit <= 16 && g_mp_limit >= 0 && g_mp_limit <= 16);   // configured limits (kept small: bound)
    g_is_multipart = nondet_bool();
    int status = -1;
    bool threw = false;
    try { status = r->on_content_start(); } catch (std::exception const &) { threw = true; }
    CHECKM(!threw, "exception escapes on_content_start (called from the event loop without a handler)");
    if (!threw) {
        CHECKM(status == 0 || status == 400 || status == 413, "unexpected status");
        if (d->content_length < 0) { CHECKM(status != 0, "negative Content-Length accepted"); WITNESS("negative length refused"); }
        if (status == 0 && d->read_full) {
            CHECKM((long long)d->post_data.size() == d->content_length && d->content_length <= g_cl_limit, "buffer size differs from the declared length or exceeds the limit");
            WITNESS("buffer allocated");
        }
        if (status == 413) WITNESS("too large");
    }
    VERIF_END();
}

// C03.a: booster::aio::details::advance (what is left to send after a short write), real code.
// C03.c: FastCGI STDOUT framing (src/fastcgi_api.cpp, fastcgi::format_output / prepare_eof), real code.
// The connection object is raw storage with the members the function touches constructed; the
// function only builds a gather list, which an independent de-framer walks here.
#include "verif_std.h"
#define private public
#define protected public
#include "src/fastcgi_api.cpp"
#undef private
#undef protected
#include "verif.h"

typedef cppcms::impl::cgi::fastcgi fastcgi;

// buffer_impl<char const*>::add with the growth of its std::vector taken out (symbolic build only: the
// stub in models/stubs_c03.c forwards add() here; the native build uses the real add).  Same observable
// behaviour -- empty chunks ignored, first chunk kept in entry_, from the second on everything lives in
// vec_ -- but vec_'s storage is one block of 8 entries obtained on first use, so libstdc++'s
// reallocation (memmove of pointer-carrying PODs) is never executed.  A ninth chunk is reported as a bound.
extern "C" void verif_buffer_add(booster::aio::buffer_impl<char const *> *b, char const *p, size_t s)
{
    typedef booster::aio::buffer_impl<char const *>::entry entry;
    if (s == 0) return;
    if (b->size_ == 0) { b->entry_.ptr = p; b->entry_.size = s; b->size_ = 1; return; }
    if (b->vec_._M_impl._M_start == 0) {
        entry *a = static_cast<entry *>(::operator new(8 * sizeof(entry)));
        b->vec_._M_impl._M_start = b->vec_._M_impl._M_finish = a;
        b->vec_._M_impl._M_end_of_storage = a + 8;
    }
    if (b->size_ == 1) *b->vec_._M_impl._M_finish++ = b->entry_;
    CHECKM(b->vec_._M_impl._M_finish != b->vec_._M_impl._M_end_of_storage, "allocation bound: more than 8 chunks in one gather list (unwinding assertion)");
    ASSUME(b->vec_._M_impl._M_finish != b->vec_._M_impl._M_end_of_storage);
    b->vec_._M_impl._M_finish->ptr = p;
    b->vec_._M_impl._M_finish->size = s;
    b->vec_._M_impl._M_finish++;
    b->size_ = b->vec_._M_impl._M_finish - b->vec_._M_impl._M_start;
}
static char g_payload[8];     // only its address is used: format_output never dereferences the data

extern "C" void h_c03c_fcgi_framing()
{
    static long long raw[(sizeof(fastcgi) + 7) / 8];
    fastcgi *s = (fastcgi *)(void *)raw;
    bool with_headers = verif_param(0) != 0;
    new (&s->response_headers_) std::string(with_headers ? "H: v\r\n\r\n" : "");
    s->response_headers_written_ = !with_headers;
    s->request_id_ = nondet_u16();
    size_t n = nondet_u32();
    if (verif_param(1)) ASSUME(n > 65535 && n <= 70000); // two records
    else ASSUME(n <= 65535 - 8);                          // one record even with the 8-byte header block
    bool completed = nondet_bool();
    booster::aio::const_buffer in;
    if (n > 0) in.add(g_payload, n);          // fake range [g_payload, g_payload+n): addresses only
    booster::system::error_code e;
    booster::aio::const_buffer out = s->fastcgi::format_output(in, completed, e);
    std::pair<booster::aio::const_buffer::entry const *, size_t> g = out.get();
    size_t hl = with_headers ? s->response_headers_.size() : 0;
    size_t total = hl + n;
    // ---- de-framer ----
    size_t i = 0, delivered = 0;
    unsigned records = 0;
    while (delivered < total && records < 3) {
        CHECKM(i < g.second && g.first[i].size == 8, "record does not start with an 8-byte header");
        fastcgi::fcgi_header h = *(fastcgi::fcgi_header const *)g.first[i].ptr;
        h.to_host();
        CHECKM(h.version == 1 && h.type == fastcgi::fcgi_stdout && h.request_id == s->request_id_, "STDOUT record header fields wrong");
        size_t cl = h.content_length, pl = h.padding_length;
        CHECKM(cl > 0 && cl <= 65535 && cl <= total - delivered, "record content length out of range");
        CHECKM(cl == 65535 || cl == total - delivered, "short record that is not the last one");
        i++;
        size_t got = 0;
        for (int part = 0; part < 2 && got < cl; part++) {        // content: header text and/or payload range
            CHECKM(i < g.second, "record content missing");
            size_t pos = delivered + got;
            if (pos < hl) { CHECKM(g.first[i].ptr == s->response_headers_.data() + pos && g.first[i].size <= hl - pos, "content entry does not continue the header block"); }
            else { CHECKM(g.first[i].ptr == g_payload + (pos - hl), "content entry does not continue the payload in order"); }
            got += g.first[i].size; i++;
        }
        CHECKM(got == cl, "content entries do not add up to the announced content length");
        if (pl > 0) { CHECKM(i < g.second && g.first[i].size == pl, "padding entry missing or of the wrong length"); i++; }
        CHECKM((cl + pl) % 8 == 0, "record (content + padding) is not 8-byte aligned");
        delivered += cl; records++;
    }
    CHECKM(delivered == total, "framed content differs in length from what the application wrote");
    if (completed) {
        CHECKM(i + 1 == g.second && g.first[i].size == sizeof(s->eof_) && g.first[i].ptr == (char const *)&s->eof_, "completed response not terminated by the EOF block");
        fastcgi::fcgi_header h0 = s->eof_.headers_[0], h1 = s->eof_.headers_[1];
        h0.to_host(); h1.to_host();
        CHECKM(h0.type == fastcgi::fcgi_stdout && h0.content_length == 0 && h0.request_id == s->request_id_, "empty STDOUT record wrong");
        CHECKM(h1.type == fastcgi::fcgi_end_request && h1.content_length == 8 && h1.request_id == s->request_id_, "END_REQUEST record wrong");
        WITNESS("completed");
    } else { CHECKM(i == g.second, "trailing entries after the last record"); WITNESS("not completed"); }
    if (records == 2) WITNESS("two records");
    VERIF_END();
}

// C03.a: after the socket accepted n bytes, advance(buf, n) describes exactly the bytes of buf after
// the first n: the chunks are a suffix of the original chunk list, every chunk ends where its source
// chunk ends, only the first may be shortened, and the byte count is max(total - n, 0).
static char g_src[8]; // addresses only: chunk i is [g_src+off_i, g_src+off_i+size_i), off_i symbolic
extern "C" void h_c03a_advance()
{
    unsigned k = verif_param(0);
    booster::aio::const_buffer *b = new booster::aio::const_buffer();
    size_t sz[4];
    char const *pt[4];
    size_t total = 0;
    for (unsigned i = 0; i < k; i++) {
        sz[i] = nondet_u64();
        ASSUME(sz[i] >= 1 && sz[i] <= (1ull << 40));
        size_t off = nondet_u64(); ASSUME(off <= (1ull << 44)); // any address: adjacent, overlapping, equal, out of order
        pt[i] = g_src + off;
        b->add(pt[i], sz[i]);
        total += sz[i];
    }
    size_t n = nondet_u64();
    booster::aio::const_buffer *r = new booster::aio::const_buffer(booster::aio::details::advance(*b, n));
    std::pair<booster::aio::const_buffer::entry const *, size_t> g = r->get();
    size_t m = g.second;
    CHECKM(m <= k, "more chunks after advance than before");
    size_t left = 0;
    for (unsigned j = 0; j < m && j < 4; j++) {
        unsigned i = k - m + j; // the source chunk this one must be the tail of
        CHECKM(g.first[j].size >= 1 && g.first[j].size <= sz[i], "chunk after advance is empty or longer than its source chunk");
        CHECKM(g.first[j].ptr + g.first[j].size == pt[i] + sz[i], "chunk after advance does not end where its source chunk ends");
        if (j > 0) CHECKM(g.first[j].size == sz[i], "a chunk other than the first was shortened");
        left += g.first[j].size;
    }
    CHECKM(left == (n >= total ? 0 : total - n), "bytes left after advance differ from total - n");
    CHECKM(r->bytes_count() == left && r->empty() == (left == 0), "bytes_count()/empty() disagree with the chunk list");
    if (m > 0 && m < k) WITNESS("whole chunks consumed");
    if (m > 0 && g.first[0].size < sz[k - m]) WITNESS("chunk split");
    if (m == 0) WITNESS("everything consumed");
    if (m == k) WITNESS("no chunk consumed");
    VERIF_END();
}

// C03.b: the gather list itself (real buffer_impl::add / get / bytes_count / empty, real std::vector
// growth): after any sequence of up to 3 add(ptr,size) calls the list holds exactly the non-empty
// chunks, in call order, and bytes_count() is their sum.
extern "C" void h_c03b_gather()
{
    unsigned k = verif_param(0);
    booster::aio::const_buffer *b = new booster::aio::const_buffer();
    size_t sz[4]; char const *pt[4];
    unsigned kept = 0; size_t total = 0;
    size_t esz[4]; char const *ept[4];
    for (unsigned i = 0; i < k; i++) {
        sz[i] = nondet_u64(); ASSUME(sz[i] <= (1ull << 40));
        size_t off = nondet_u64(); ASSUME(off <= (1ull << 44)); // any address: adjacent, overlapping, equal, out of order
        pt[i] = g_src + off;
        b->add(pt[i], sz[i]);
        if (sz[i] != 0) { esz[kept] = sz[i]; ept[kept] = pt[i]; kept++; total += sz[i]; }
    }
    std::pair<booster::aio::const_buffer::entry const *, size_t> g = b->get();
    CHECKM(g.second == kept, "number of chunks differs from the number of non-empty add() calls");
    for (unsigned j = 0; j < kept && j < 4; j++)
        CHECKM(g.first[j].ptr == ept[j] && g.first[j].size == esz[j], "chunk differs from what was added, or out of order");
    CHECKM(b->bytes_count() == total && b->empty() == (kept == 0) && b->size() == kept, "bytes_count()/empty()/size() disagree with the chunks added");
    if (kept == 3) WITNESS("three chunks");
    if (kept < k) WITNESS("empty chunk skipped");
    if (kept == 0) WITNESS("empty list");
    if (kept == 1) WITNESS("single chunk");
    if (kept >= 2 && ept[0] + esz[0] == ept[1]) WITNESS("second chunk starts where the first ends");
    VERIF_END();
}

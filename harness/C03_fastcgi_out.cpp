// C03.c: FastCGI STDOUT framing (src/fastcgi_api.cpp, fastcgi::format_output / prepare_eof), real code.
// The connection object is raw storage with the members the function touches constructed; the
// function only builds a gather list, which an independent de-framer walks here.
#include "verif_std.h"
#define private public
#define protected public
#include "src/fastcgi_api.cpp"
#undef private
#undef protected
#include "verif.h"

typedef cppcms::impl::cgi::fastcgi fastcgi;
static char g_payload[8];     // only its address is used: format_output never dereferences the data

extern "C" void h_c03c_fcgi_framing()
{
    static long long raw[(sizeof(fastcgi) + 7) / 8];
    fastcgi *s = (fastcgi *)(void *)raw;
    bool with_headers = verif_param(0) != 0;
    new (&s->response_headers_) std::string(with_headers ? "H: v\r\n\r\n" : "");
    s->response_headers_written_ = !with_headers;
    s->request_id_ = nondet_u16();
    size_t n = nondet_u32();
    ASSUME(n <= 70000);
    bool completed = nondet_bool();
    booster::aio::const_buffer in;
    if (n > 0) in.add(g_payload, n);          // fake range [g_payload, g_payload+n): addresses only
    booster::system::error_code e;
    booster::aio::const_buffer out = s->fastcgi::format_output(in, completed, e);
    std::pair<booster::aio::const_buffer::entry const *, size_t> g = out.get();
    size_t hl = with_headers ? s->response_headers_.size() : 0;
    size_t total = hl + n;
    // ---- de-framer ----
    size_t i = 0, delivered = 0;
    unsigned records = 0;
    while (delivered < total && records < 3) {
        CHECKM(i < g.second && g.first[i].size == 8, "record does not start with an 8-byte header");
        fastcgi::fcgi_header h = *(fastcgi::fcgi_header const *)g.first[i].ptr;
        h.to_host();
        CHECKM(h.version == 1 && h.type == fastcgi::fcgi_stdout && h.request_id == s->request_id_, "STDOUT record header fields wrong");
        size_t cl = h.content_length, pl = h.padding_length;
        CHECKM(cl > 0 && cl <= 65535 && cl <= total - delivered, "record content length out of range");
        CHECKM(cl == 65535 || cl == total - delivered, "short record that is not the last one");
        i++;
        size_t got = 0;
        for (int part = 0; part < 2 && got < cl; part++) {        // content: header text and/or payload range
            CHECKM(i < g.second, "record content missing");
            size_t pos = delivered + got;
            if (pos < hl) { CHECKM(g.first[i].ptr == s->response_headers_.data() + pos && g.first[i].size <= hl - pos, "content entry does not continue the header block"); }
            else { CHECKM(g.first[i].ptr == g_payload + (pos - hl), "content entry does not continue the payload in order"); }
            got += g.first[i].size; i++;
        }
        CHECKM(got == cl, "content entries do not add up to the announced content length");
        if (pl > 0) { CHECKM(i < g.second && g.first[i].size == pl, "padding entry missing or of the wrong length"); i++; }
        CHECKM((cl + pl) % 8 == 0, "record (content + padding) is not 8-byte aligned");
        delivered += cl; records++;
    }
    CHECKM(delivered == total, "framed content differs in length from what the application wrote");
    if (completed) {
        CHECKM(i + 1 == g.second && g.first[i].size == sizeof(s->eof_) && g.first[i].ptr == (char const *)&s->eof_, "completed response not terminated by the EOF block");
        fastcgi::fcgi_header h0 = s->eof_.headers_[0], h1 = s->eof_.headers_[1];
        h0.to_host(); h1.to_host();
        CHECKM(h0.type == fastcgi::fcgi_stdout && h0.content_length == 0 && h0.request_id == s->request_id_, "empty STDOUT record wrong");
        CHECKM(h1.type == fastcgi::fcgi_end_request && h1.content_length == 8 && h1.request_id == s->request_id_, "END_REQUEST record wrong");
        WITNESS("completed");
    } else { CHECKM(i == g.second, "trailing entries after the last record"); WITNESS("not completed"); }
    if (records == 2) WITNESS("two records");
    VERIF_END();
}

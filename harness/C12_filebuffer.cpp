// C12.e: upload spill-over buffer (private/http_file_buffer.h, http::impl::file_buffer), real code.
// stdio is a small in-memory file (models/stubs_c12e.c).  Whatever is written comes back byte for
// byte after seeking to 0, in memory and after spilling to the temporary file.
#include "verif_std.h"
#define private public
#define protected public
#include "http_file_buffer.h"
#undef private
#undef protected
#include "verif.h"

typedef cppcms::http::impl::file_buffer file_buffer;
extern "C" void h_c12e_spill_roundtrip()
{
    unsigned k = verif_param(0);           // bytes written
    unsigned limit = verif_param(1);       // in-memory limit (0 = spill at once)
    file_buffer &fb = *new file_buffer(limit);
    fb.name(std::string("f", 1));          // skip temp-name generation (urandom, getenv)
    unsigned char w[4];
    for (unsigned i = 0; i < k; i++) { w[i] = nondet_u8(); CHECKM(fb.sputc((char)w[i]) != EOF, "write refused"); }
    CHECKM(fb.in_memory() == (k <= limit), "spill decision differs from: more bytes than the in-memory limit");
    CHECKM(fb.pubseekpos(0, std::ios_base::in) == std::streampos(0), "seek to the beginning failed");
    for (unsigned i = 0; i < k; i++) {
        int c = fb.sbumpc();
        CHECKM(c != EOF, "premature end of data when reading back");
        CHECKM((unsigned char)c == w[i], "byte read back differs from the byte written");
    }
    CHECKM(fb.sbumpc() == EOF, "data beyond what was written");
    if (fb.in_memory()) WITNESS("in memory"); else WITNESS("spilled to file");
    VERIF_END();
}

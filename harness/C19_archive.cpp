// C19: cppcms::archive chunk reader/writer (src/archive.cpp), real code.
#include "verif_std.h"
#define private public
#define protected public
#include "src/archive.cpp"
#include <cppcms/archive_traits.h>
#undef private
#undef protected
#include "verif.h"

#ifndef VERIF_N
#define VERIF_N 20
#endif
#ifndef VERIF_K
#define VERIF_K 3
#endif

// arbitrary archive image of n <= VERIF_N symbolic bytes; for n > 15 the
// string's heap block has capacity exactly n, so an over-read is a real
// out-of-bounds access
static void make_archive(cppcms::archive &a, unsigned &n)
{
    n = nondet_u32();
    ASSUME(n <= VERIF_N);
    std::string buf(n, '\0');
    for (unsigned i = 0; i < n; i++)
        buf[i] = (char)nondet_u8();
    a.buffer_ = std::move(buf);
    a.mode_ = cppcms::archive::load_from_archive;
    a.ptr_ = 0;
}

// C19.a: any sequence of <= K read operations on arbitrary bytes either throws
// archive_error or stays inside the archive.
extern "C" void h_c19a_reader_safety()
{
    cppcms::archive a;
    unsigned n;
    make_archive(a, n);
    for (int step = 0; step < VERIF_K; step++) {
        unsigned op = nondet_u8();
        ASSUME(op < 3);
        size_t before = a.ptr_;
        try {
            if (op == 0) {
                std::string s = a.read_chunk_as_string();
                CHECKM(s.size() + 4 <= n - before, "read_chunk_as_string returned more bytes than the archive holds");
                WITNESS("string chunk read");
            } else if (op == 1) {
                unsigned char tmp[8];
                unsigned len = nondet_u8();
                ASSUME(len <= 8);
                a.read_chunk(tmp, len);
                CHECKM(len + 4 <= n - before, "read_chunk copied more bytes than the archive holds");
                WITNESS("raw chunk read");
            } else {
                size_t sz = a.next_chunk_size();
                CHECKM(sz + 4 <= n - before, "next_chunk_size announces more bytes than the archive holds");
            }
            CHECKM(a.ptr_ <= a.buffer_.size(), "read position left the archive");
        } catch (cppcms::archive_error const &) {
            CHECKM(a.ptr_ == before, "failed read moved the read position");
            WITNESS("archive_error");
        }
    }
}

// C19.b: chunks written are read back identically and eof() is exact.
extern "C" void h_c19b_chunk_roundtrip()
{
    cppcms::archive a;
    unsigned k = VERIF_K;
    unsigned char data[VERIF_K][4];
    unsigned len[VERIF_K];
    for (unsigned i = 0; i < k; i++) {
        len[i] = verif_param(i);
        for (unsigned j = 0; j < len[i]; j++)
            data[i][j] = nondet_u8();
        a.write_chunk(data[i], len[i]);
    }
    a.mode(cppcms::archive::load_from_archive);
    for (unsigned i = 0; i < k; i++) {
        CHECKM(!a.eof(), "eof before all chunks were read");
        CHECKM(a.next_chunk_size() == len[i], "chunk length differs");
        if (nondet_bool()) {
            std::string s = a.read_chunk_as_string();
            CHECKM(s.size() == len[i], "string chunk size differs");
            for (unsigned j = 0; j < len[i]; j++)
                CHECKM((unsigned char)s[j] == data[i][j], "string chunk byte differs");
        } else {
            unsigned char tmp[4];
            a.read_chunk(tmp, len[i]);
            for (unsigned j = 0; j < len[i]; j++)
                CHECKM(tmp[j] == data[i][j], "raw chunk byte differs");
        }
    }
    CHECKM(a.eof(), "eof() false after the last chunk");
    WITNESS("K chunks round trip");
}

// C19.d: typed loaders on damaged archives: archive_traits<std::vector<int>>, <std::vector<short>>,
// <std::string>, <int> from arbitrary bytes either throw or load a value that fits inside the
// archive; nothing is read or written outside the archive / the destination.
template<typename T> static void load_arbitrary(unsigned elem_size)
{
    cppcms::archive &a = *new cppcms::archive();
    unsigned n;
    make_archive(a, n);
    T &v = *new T();
    try {
        cppcms::archive_traits<T>::load(v, a);
        CHECKM(a.ptr_ <= a.buffer_.size(), "read position left the archive");
        CHECKM(v.size() * elem_size + 4 <= n, "loaded more elements than the archive holds");
        WITNESS("loaded");
    } catch (cppcms::archive_error const &) {
        WITNESS("archive_error");
    } catch (std::exception const &) {
        // length_error / bad_alloc for absurd sizes: allowed by the property ("throws an exception")
    }
    VERIF_END();
}
extern "C" void h_c19d_vector_int() { load_arbitrary<std::vector<int> >(4); }
extern "C" void h_c19d_vector_short() { load_arbitrary<std::vector<short> >(2); }
extern "C" void h_c19d_string() { load_arbitrary<std::string>(1); }

// C19.c: traits round trip: load(save(x)) == x
extern "C" void h_c19c_traits_roundtrip()
{
    unsigned k = verif_param(0);     // number of vector elements / string length
    cppcms::archive &a = *new cppcms::archive();
    a.reserve(64);
    std::vector<int> &v = *new std::vector<int>(k);
    for (unsigned i = 0; i < k; i++) v[i] = (int)nondet_u32();
    std::string &s = *new std::string(k, 'x');
    for (unsigned i = 0; i < k; i++) s[i] = (char)nondet_u8();
    int x = (int)nondet_u32();
    cppcms::archive_traits<std::vector<int> >::save(v, a);
    cppcms::archive_traits<std::string>::save(s, a);
    cppcms::archive_traits<int>::save(x, a);
    a.mode(cppcms::archive::load_from_archive);
    std::vector<int> &v2 = *new std::vector<int>();
    std::string &s2 = *new std::string();
    int x2 = 0;
    cppcms::archive_traits<std::vector<int> >::load(v2, a);
    cppcms::archive_traits<std::string>::load(s2, a);
    cppcms::archive_traits<int>::load(x2, a);
    CHECKM(v2.size() == k && s2.size() == k && x2 == x, "round trip changed a size or the int");
    for (unsigned i = 0; i < k; i++) { CHECKM(v2[i] == v[i], "vector element changed"); CHECKM(s2[i] == s[i], "string byte changed"); }
    CHECKM(a.eof(), "archive not fully consumed");
    WITNESS("round trip");
    VERIF_END();
}

// C19.f: the generic container path (count chunk, then one chunk per element; std::insert_iterator)
// and std::pair: std::list<short> from arbitrary bytes throws or holds exactly the elements the
// archive contains; the untrusted 64-bit count can never make it read outside the archive.
extern "C" void h_c19f_list_arbitrary()
{
    cppcms::archive &a = *new cppcms::archive();
    unsigned n;
    make_archive(a, n);
    std::list<short> &v = *new std::list<short>();
    try {
        cppcms::archive_traits<std::list<short> >::load(v, a);
        CHECKM(a.ptr_ <= a.buffer_.size(), "read position left the archive");
        // count chunk = 4 + 8 bytes, every element chunk = 4 + 2 bytes
        CHECKM(12 + v.size() * 6 <= n, "loaded more elements than the archive holds");
        unsigned long long cnt = 0;
        for (int i = 7; i >= 0; i--) cnt = (cnt << 8) | (unsigned char)a.buffer_[4 + i];
        CHECKM(cnt == v.size(), "number of loaded elements differs from the stored count");
        unsigned k = 0;
        for (std::list<short>::const_iterator it = v.begin(); it != v.end() && k < 4; ++it, ++k) {
            unsigned short e = (unsigned char)a.buffer_[12 + 6 * k + 4] | ((unsigned char)a.buffer_[12 + 6 * k + 5] << 8);
            CHECKM((unsigned short)*it == e, "loaded element differs from the archive bytes (or order changed)");
        }
        if (v.size() == 2) WITNESS("two elements");
        WITNESS("loaded");
    } catch (cppcms::archive_error const &) {
        WITNESS("archive_error");
    } catch (std::exception const &) {
    }
    VERIF_END();
}

// C19.g: round trip through the generic container path and std::pair
extern "C" void h_c19g_container_roundtrip()
{
    unsigned k = verif_param(0);
    cppcms::archive &a = *new cppcms::archive();
    a.reserve(64);
    std::list<short> &v = *new std::list<short>();
    for (unsigned i = 0; i < k; i++) v.push_back((short)nondet_u16());
    std::pair<int, unsigned char> &p = *new std::pair<int, unsigned char>((int)nondet_u32(), nondet_u8());
    long long arr[2] = { (long long)nondet_u64(), (long long)nondet_u64() };
    cppcms::archive_traits<std::list<short> >::save(v, a);
    cppcms::archive_traits<std::pair<int, unsigned char> >::save(p, a);
    cppcms::archive_traits<long long[2]>::save(arr, a);
    a.mode(cppcms::archive::load_from_archive);
    std::list<short> &v2 = *new std::list<short>();
    v2.push_back(7);   // previous content must be replaced, not appended to
    std::pair<int, unsigned char> &p2 = *new std::pair<int, unsigned char>(0, 0);
    long long arr2[2] = { 0, 0 };
    cppcms::archive_traits<std::list<short> >::load(v2, a);
    cppcms::archive_traits<std::pair<int, unsigned char> >::load(p2, a);
    cppcms::archive_traits<long long[2]>::load(arr2, a);
    CHECKM(v2.size() == k, "container round trip changed the number of elements");
    std::list<short>::const_iterator i1 = v.begin(), i2 = v2.begin();
    for (unsigned i = 0; i < k && i < 4; i++, ++i1, ++i2) CHECKM(*i1 == *i2, "container round trip changed an element or the order");
    CHECKM(p2.first == p.first && p2.second == p.second, "pair round trip changed a member");
    CHECKM(arr2[0] == arr[0] && arr2[1] == arr[1], "array round trip changed an element");
    CHECKM(a.eof(), "archive not fully consumed");
    WITNESS("round trip");
    VERIF_END();
}

// C06: server-side session identifier handling (src/session_sid.cpp), real code.
// session_interface cookie accessors, the storage backend, the random device and the
// clock are stubs defined here.
#include "verif_std.h"
#include <time.h>
#define private public
#define protected public
#include "src/session_sid.cpp"
#undef private
#undef protected
#include "verif.h"

static unsigned char g_cookie[40]; static unsigned g_cookie_n;
static unsigned char g_set_cookie[40]; static unsigned g_set_cookie_n; static bool g_cookie_set, g_cookie_cleared;
static long long g_now;
// what the storage saw
static unsigned g_saves, g_loads, g_removes;
static unsigned char g_save_id[40], g_load_id[40], g_remove_id[40];
static unsigned g_save_id_n, g_load_id_n, g_remove_id_n;
static long long g_save_timeout; static long long g_stored_timeout; static bool g_stored_present;
static bool g_bad_id; // storage addressed with an identifier that is not 32 lowercase hex digits

static void note_id(std::string const &s, unsigned char *dst, unsigned &n)
{
    n = s.size() <= 40 ? s.size() : 40;
    for (unsigned i = 0; i < n; i++) dst[i] = s[i];
    bool ok = s.size() == 32;
    for (unsigned i = 0; i < n; i++) { unsigned char c = dst[i]; if (!((c >= '0' && c <= '9') || (c >= 'a' && c <= 'f'))) ok = false; }
    if (!ok) g_bad_id = true;
}
struct rec_storage : public cppcms::sessions::session_storage {
    virtual void save(std::string const &sid, time_t timeout, std::string const &) { g_saves++; note_id(sid, g_save_id, g_save_id_n); g_save_timeout = timeout; }
    virtual bool load(std::string const &sid, time_t &timeout, std::string &) { g_loads++; note_id(sid, g_load_id, g_load_id_n); if (!g_stored_present) return false; timeout = (time_t)g_stored_timeout; return true; }
    virtual void remove(std::string const &sid) { g_removes++; note_id(sid, g_remove_id, g_remove_id_n); }
    virtual bool is_blocking() { return false; }
};
namespace cppcms {
std::string session_interface::get_session_cookie() { return std::string((char const *)g_cookie, g_cookie_n); }
void session_interface::set_session_cookie(std::string const &d) { g_cookie_set = true; g_set_cookie_n = d.size() <= 40 ? d.size() : 40; for (unsigned i = 0; i < g_set_cookie_n; i++) g_set_cookie[i] = d[i]; }
void session_interface::clear_session_cookie() { g_cookie_cleared = true; }
#ifndef VERIF_NATIVE
urandom_device::urandom_device() {}
urandom_device::~urandom_device() {}
void urandom_device::generate(void *p, unsigned n) { for (unsigned i = 0; i < n; i++) ((unsigned char *)p)[i] = nondet_u8(); }
#endif
}
#ifndef VERIF_NATIVE
extern "C" time_t time(time_t *t) { if (t) *t = (time_t)g_now; return (time_t)g_now; }
#endif

static bool ref_valid(const unsigned char *c, unsigned n)
{
    if (n != 33 || c[0] != 'I') return false;
    for (unsigned i = 1; i < 33; i++) if (!((c[i] >= '0' && c[i] <= '9') || (c[i] >= 'a' && c[i] <= 'f'))) return false;
    return true;
}
static void sym_cookie(unsigned n)
{
    g_cookie_n = n;
    for (unsigned i = 0; i < n; i++) g_cookie[i] = nondet_u8();
}

// C06.b: valid_sid accepts exactly I[0-9a-f]{32} and extracts the 32 digits
extern "C" void h_c06b_valid_sid()
{
    unsigned n = verif_param(0);
    sym_cookie(n);
    std::string cookie((char const *)g_cookie, n), id;
    cppcms::sessions::session_sid *s = (cppcms::sessions::session_sid *)malloc(sizeof(cppcms::sessions::session_sid));
    bool v = s->valid_sid(cookie, id);
    CHECKM(v == ref_valid(g_cookie, n), "valid_sid verdict differs from the pattern I[0-9a-f]{32}");
    if (v) {
        CHECKM(id.size() == 32, "extracted id is not 32 characters");
        for (unsigned i = 0; i < 32; i++) CHECKM((unsigned char)id[i] == g_cookie[i + 1], "extracted id differs from the cookie digits");
        WITNESS("valid");
    } else WITNESS("invalid");
    VERIF_END();
}

// C06.b2: load/save/clear never address storage with an identifier that is not of the issued
// form; an expired entry is removed and reported absent; new data retires the old identifier
extern "C" void h_c06b_sid_ops()
{
    unsigned n = verif_param(0);     // cookie length
    unsigned op = verif_param(1);    // 0 load, 1 save, 2 clear
    sym_cookie(n);
    g_now = (long long)nondet_u64();
    g_stored_present = nondet_bool();
    g_stored_timeout = (long long)nondet_u64();
    g_bad_id = false; g_saves = g_loads = g_removes = 0; g_cookie_set = g_cookie_cleared = false;
    booster::shared_ptr<cppcms::sessions::session_storage> st(new rec_storage());
    cppcms::sessions::session_sid &sid = *new cppcms::sessions::session_sid(st);
    cppcms::session_interface *si = (cppcms::session_interface *)malloc(16); // only the stubs above are called
    bool valid = ref_valid(g_cookie, n);
    if (op == 0) {
        std::string data; time_t t = 0;
        bool r = sid.load(*si, data, t);
        if (!valid) { CHECKM(!r && g_loads == 0 && g_removes == 0, "storage consulted for a cookie that is not a session id"); WITNESS("load: not an id"); }
        else {
            CHECKM(g_loads == 1, "valid id did not reach the storage exactly once");
            bool live = g_stored_present && !(g_now > g_stored_timeout);
            CHECKM(r == live, "load result differs from: stored and deadline not passed");
            if (g_stored_present && g_now > g_stored_timeout) { CHECKM(g_removes == 1, "expired session was not removed"); WITNESS("load: expired"); }
            if (r) { CHECKM((long long)t == g_stored_timeout, "deadline returned differs from the stored one"); WITNESS("load: live"); }
        }
    } else if (op == 1) {
        bool new_data = nondet_bool();
        long long to = (long long)nondet_u64();
        sid.save(*si, std::string("d"), (time_t)to, new_data, false);
        CHECKM(g_saves == 1 && g_save_timeout == to, "save did not reach the storage once with the given deadline");
        CHECKM(g_cookie_set && g_set_cookie_n == 33 && g_set_cookie[0] == 'I', "cookie not set to I + id");
        for (unsigned i = 0; i < 32; i++) CHECKM(g_set_cookie[i + 1] == g_save_id[i], "cookie id differs from the id used for storage");
        if (valid && !new_data) { for (unsigned i = 0; i < 32; i++) CHECKM(g_save_id[i] == g_cookie[i + 1], "existing session saved under a different id"); CHECKM(g_removes == 0, "existing id removed although the data is not new"); WITNESS("save: same id"); }
        if (valid && new_data) { CHECKM(g_removes == 1, "old id not retired on reset"); for (unsigned i = 0; i < 32; i++) CHECKM(g_remove_id[i] == g_cookie[i + 1], "retired id is not the old one"); WITNESS("save: fresh id"); }
        if (!valid) { CHECKM(g_removes == 0, "storage addressed for a cookie that is not a session id"); WITNESS("save: new session"); }
    } else {
        sid.clear(*si);
        CHECKM(g_cookie_cleared, "cookie not cleared");
        CHECKM(g_removes == (valid ? 1u : 0u), "clear did not remove exactly the valid id");
        WITNESS("clear");
    }
    CHECKM(!g_bad_id, "storage addressed with an identifier that is not 32 lowercase hex digits");
    VERIF_END();
}

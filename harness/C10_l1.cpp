// C10.c: L1 coherence of the networked cache (src/cache_over_ip.cpp), real code.
// tcp_cache (the connection to the cache server) is an abstract single-key server defined here
// with a generation counter that increases on every store; the L1 is a one-cell base_cache
// model that, like mem_cache, tags an entry with the caller's generation or -- when none is
// given -- with a number of its own, unrelated to the server's (arbitrary).  Another node is a
// direct mutation of the server.
#include "verif_std.h"
#define private public
#define protected public
#include "src/cache_over_ip.cpp"
#undef private
#undef protected
#include "verif.h"

using namespace cppcms::impl;
// ---- abstract server (one key) ----
static bool S_present; static unsigned char S_val; static uint64_t S_gen;
static void server_store(unsigned char v) { S_present = true; S_val = v; S_gen++; }
#ifndef VERIF_NATIVE
int tcp_cache::fetch(std::string const &, std::string &data, std::set<std::string> *, time_t &timeout, uint64_t &generation, bool if_not_updated)
{
    if (!S_present) return not_found;
    if (if_not_updated && generation == S_gen) return up_to_date;
    data = std::string(1, (char)S_val); timeout = 100; generation = S_gen;
    return found;
}
void tcp_cache::store(std::string const &, std::string const &data, std::set<std::string> const &, time_t) { server_store(data.size() ? (unsigned char)data[0] : 0); }
void tcp_cache::rise(std::string const &) { S_present = false; }
void tcp_cache::clear() { S_present = false; }
void tcp_cache::stats(unsigned &k, unsigned &t) { k = S_present; t = 0; }
#endif
static long long tcp_raw[8];
extern "C" __attribute__((noinline)) void *verif_tcp_object() { return tcp_raw; }
// ---- one-cell L1 ----
static bool L_present; static unsigned char L_val; static uint64_t L_gen;
struct l1_model : public base_cache {
    virtual bool fetch(std::string const &, std::string *a, std::set<std::string> *, time_t *to, uint64_t *gen) {
        if (!L_present) return false;
        if (a) *a = std::string(1, (char)L_val);
        if (to) *to = 100;
        if (gen) *gen = L_gen;
        return true;
    }
    virtual void store(std::string const &, std::string const &b, std::set<std::string> const &, time_t, uint64_t const *gen) {
        L_present = true; L_val = b.size() ? (unsigned char)b[0] : 0;
        L_gen = gen ? *gen : nondet_u64();   // no generation given: the L1's own numbering, unrelated to the server's
    }
    virtual void rise(std::string const &) { L_present = false; }
    virtual void remove(std::string const &) { L_present = false; }
    virtual void clear() { L_present = false; }
    virtual void stats(unsigned &k, unsigned &t) { k = L_present; t = 0; }
    virtual void add_ref() {}
    virtual bool del_ref() { return false; }
};

extern "C" void h_c10c_l1_coherence()
{
#ifndef VERIF_NATIVE
    bool with_l1 = verif_param(0) != 0;
    static long long raw[(sizeof(cache_over_ip) + 7) / 8];
    cache_over_ip *c = (cache_over_ip *)(void *)raw;
    new (&c->l1_) booster::intrusive_ptr<base_cache>(with_l1 ? new l1_model() : 0);
    S_present = false; S_gen = nondet_u64(); ASSUME(S_gen < 1000); L_present = false;
    std::string key("k", 1);
    std::set<std::string> &none = *new std::set<std::string>();
    for (int step = 0; step < VERIF_K; step++) {
        unsigned op = nondet_u8();
        ASSUME(op < 5);
        if (op == 0) {          // this node fetches
            std::string &out = *new std::string();
            bool hit = c->cache_over_ip::fetch(key, &out, 0, 0, 0);
            CHECKM(hit == S_present, "fetch hit/miss differs from the server's state");
            if (hit) { CHECKM(out.size() == 1 && (unsigned char)out[0] == S_val, "fetch returned a value that is not current on the server (stale L1 copy)"); WITNESS("fetch hit"); }
        } else if (op == 1) {   // this node stores
            unsigned char v = nondet_u8();
            c->cache_over_ip::store(key, std::string(1, (char)v), none, 100, 0);
            CHECKM(S_present && S_val == v, "store did not reach the server");
        } else if (op == 2) {   // another node stores
            server_store(nondet_u8());
            WITNESS("other node stored");
        } else if (op == 3) {   // another node raises a trigger / clears
            S_present = false;
        } else {                // this node clears
            c->cache_over_ip::clear();
        }
    }
    WITNESS("history");
#else
    WITNESS("native: model-only obligation");
#endif
    VERIF_END();
}

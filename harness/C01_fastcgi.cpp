// C01.c / C02.c: FastCGI name-value pair decoding (src/fastcgi_api.cpp, fastcgi::read_len /
// parse_pairs), real code.  The connection object is raw storage with body_ and pool_
// constructed; env_.add is a recorder (models/stubs_c02.c).
#include "verif_std.h"
#define private public
#define protected public
#include "src/fastcgi_api.cpp"
#undef private
#undef protected
#include "verif.h"

typedef cppcms::impl::cgi::fastcgi fastcgi;
static unsigned char g_keys[4][8], g_vals[4][8]; static unsigned g_kn[4], g_vn[4], g_pairs;
#ifdef VERIF_NATIVE
#define NATIVE_PAIRS(conn, K0, KL0) do { g_pairs = 0; for (cppcms::impl::string_map::iterator it = (conn)->env_.begin(); it != (conn)->env_.end(); ++it) g_pairs++; \
    std::string k0((char const *)(K0), (KL0)); char const *v0 = (conn)->env_.get(k0.c_str()); char const *v1 = (conn)->env_.get("x"); \
    g_kn[0] = (KL0); for (unsigned i = 0; i < (KL0); i++) g_keys[0][i] = (K0)[i]; g_vn[0] = v0 ? strlen(v0) : 99; for (unsigned i = 0; v0 && i < g_vn[0] && i < 8; i++) g_vals[0][i] = v0[i]; \
    g_kn[1] = 1; g_keys[1][0] = 'x'; g_vn[1] = v1 ? strlen(v1) : 99; if (v1 && g_vn[1]) g_vals[1][0] = v1[0]; } while (0)
#else
#define NATIVE_PAIRS(conn, K0, KL0) do { } while (0)
#endif
static unsigned cstrlen_bounded(const unsigned char *p) { unsigned n = 0; while (n < 16 && p[n]) n++; return n; }
extern "C" __attribute__((noinline)) void verif_env_add(unsigned char *k, unsigned char *v)
{
    if (g_pairs < 4) {
        unsigned a = cstrlen_bounded(k), b = cstrlen_bounded(v);
        g_kn[g_pairs] = a; g_vn[g_pairs] = b;
        for (unsigned i = 0; i < a && i < 8; i++) g_keys[g_pairs][i] = k[i];
        for (unsigned i = 0; i < b && i < 8; i++) g_vals[g_pairs][i] = v[i];
    }
    g_pairs++;
}
static fastcgi *raw_fcgi(unsigned n)
{
    static long long raw[(sizeof(fastcgi) + 7) / 8];
    fastcgi *s = (fastcgi *)(void *)raw;
    new (&s->body_) std::vector<char>(n);
    new (&s->pool_) cppcms::impl::string_pool(48);
#ifdef VERIF_NATIVE
    new (&s->env_) cppcms::impl::string_map();   // the native build runs the real string_map::add
#endif
    return s;
}
static unsigned put_len(std::vector<char> &b, unsigned pos, unsigned len, bool wide)
{
    if (!wide) { b[pos++] = (char)len; return pos; }
    b[pos++] = (char)0x80; b[pos++] = 0; b[pos++] = 0; b[pos++] = (char)len;
    return pos;
}

// C01.c: decode(encode(pairs)) == pairs for both length encodings
extern "C" void h_c01c_fcgi_roundtrip()
{
    unsigned kl = verif_param(0), vl = verif_param(1);
    bool w1 = nondet_bool(), w2 = nondet_bool(), w3 = nondet_bool(), w4 = nondet_bool();
    unsigned n = (w1 ? 4 : 1) + (w2 ? 4 : 1) + kl + vl + (w3 ? 4 : 1) + (w4 ? 4 : 1) + 1 + 0;
    fastcgi *s = raw_fcgi(20);
    s->body_.resize(n);
    unsigned char k[4], v[4];
    for (unsigned i = 0; i < kl; i++) { k[i] = nondet_u8(); ASSUME(k[i] != 0); }
    for (unsigned i = 0; i < vl; i++) { v[i] = nondet_u8(); ASSUME(v[i] != 0); }
    unsigned p = 0;
    p = put_len(s->body_, p, kl, w1); p = put_len(s->body_, p, vl, w2);
    for (unsigned i = 0; i < kl; i++) s->body_[p++] = k[i];
    for (unsigned i = 0; i < vl; i++) s->body_[p++] = v[i];
    p = put_len(s->body_, p, 1, w3); p = put_len(s->body_, p, 0, w4);     // second pair: "x" = ""
    s->body_[p++] = 'x';
    g_pairs = 0;
    bool ok = s->parse_pairs();
    NATIVE_PAIRS(s, k, kl);
    CHECKM(ok, "well-formed name-value block rejected");
    CHECKM(g_pairs == 2, "number of decoded pairs differs");
    CHECKM(g_kn[0] == kl && g_vn[0] == vl, "first pair lengths differ");
    for (unsigned i = 0; i < kl; i++) CHECKM(g_keys[0][i] == k[i], "first name differs");
    for (unsigned i = 0; i < vl; i++) CHECKM(g_vals[0][i] == v[i], "first value differs");
    CHECKM(g_kn[1] == 1 && g_keys[1][0] == 'x' && g_vn[1] == 0, "second pair differs");
    WITNESS("round trip");
    if (w1 && !w2) WITNESS("mixed length forms");
    VERIF_END();
}

// C02.c: parse_pairs on an arbitrary body never reads outside body_
extern "C" void h_c02c_fcgi_safety()
{
    unsigned n = verif_param(0);
    fastcgi *s = raw_fcgi(n);
    for (unsigned i = 0; i < n; i++) s->body_[i] = (char)nondet_u8();
    g_pairs = 0;
    bool ok = s->parse_pairs();
    if (ok) WITNESS("accepted"); else WITNESS("rejected");
    VERIF_END();
}

// C01.d / C02.d: FastCGI record reassembly from the read cache (fastcgi::non_blocking_read_record):
// for arbitrary cache contents and cursors, a record is taken only when header, content and padding
// are all present; then exactly the content bytes are appended to body_, the padding is skipped and
// the cursors stay inside the cache; otherwise nothing changes.
extern "C" void h_c01d_record_reassembly()
{
    const unsigned C = 16;
    fastcgi *s = raw_fcgi(0);
    new (&s->cache_) std::vector<char>(C);
    for (unsigned i = 0; i < C; i++) s->cache_[i] = (char)nondet_u8();
    unsigned st = nondet_u8(), en = nondet_u8();
    ASSUME(st <= en && en <= C);
    s->cache_start_ = st; s->cache_end_ = en;
    unsigned cur = verif_param(0);                    // bytes already in body_
    s->body_.resize(cur);
    unsigned char b0 = nondet_u8(), b1 = nondet_u8();
    if (cur > 0) s->body_[0] = (char)b0;
    if (cur > 1) s->body_[1] = (char)b1;
    bool r = s->non_blocking_read_record();
    unsigned avail = en - st;
    unsigned cl = 0, pl = 0;
    if (avail >= 8) { cl = ((unsigned)(unsigned char)s->cache_[st + 4] << 8) | (unsigned char)s->cache_[st + 5]; pl = (unsigned char)s->cache_[st + 6]; }
    bool complete = avail >= 8 && avail >= 8 + cl + pl;
    CHECKM(r == complete, "record taken although header+content+padding are not all in the cache (or refused although they are)");
    if (r) {
        CHECKM(s->cache_start_ == st + 8 + cl + pl && s->cache_start_ <= s->cache_end_ && s->cache_end_ == en, "cache cursors wrong after taking a record");
        CHECKM(s->body_.size() == cur + cl, "body_ did not grow by exactly the content length");
        for (unsigned i = 0; i < cl && i < 8; i++) CHECKM(s->body_[cur + i] == s->cache_[st + 8 + i], "content bytes differ");
        CHECKM(s->header_.content_length == cl && s->header_.padding_length == pl, "header_ differs from the record header");
        WITNESS("record taken");
        if (pl > 0 && cl > 0) WITNESS("with padding");
    } else {
        CHECKM(s->cache_start_ == st && s->cache_end_ == en && s->body_.size() == cur, "state changed although no record was taken");
        WITNESS("incomplete");
    }
    if (cur > 0) CHECKM(s->body_[0] == (char)b0, "earlier body bytes changed");
    VERIF_END();
}

// C01.d2: the asynchronous twin of C01.d (fastcgi::on_header_read appended content+padding to body_;
// on_body_read must strip exactly this record's padding): afterwards body_ is the earlier bytes
// followed by the record's content.
static unsigned g_calls2; static int g_err2;
struct rec_handler2 { void operator()(booster::system::error_code const &e) const { g_calls2++; g_err2 = e.value(); } };
extern "C" void h_c01d_async_body()
{
    unsigned cur = verif_param(0);            // bytes accumulated from earlier records
    fastcgi *s = raw_fcgi(0);
    unsigned cl = nondet_u8(), pl = nondet_u8();
    ASSUME(cl <= 4 && pl <= 7);
    s->header_.content_length = cl; s->header_.padding_length = pl;
    s->body_.resize(cur + cl + pl);
    unsigned char snap[16];
    for (unsigned i = 0; i < cur + cl + pl && i < 16; i++) { snap[i] = nondet_u8(); s->body_[i] = (char)snap[i]; }
    g_calls2 = 0;
    cppcms::impl::cgi::handler h = rec_handler2();
    s->on_body_read(booster::system::error_code(), h);
    CHECKM(g_calls2 == 1 && g_err2 == 0, "completion handler not called once with success");
    CHECKM(s->body_.size() == cur + cl, "body_ is not the earlier bytes plus this record's content (padding not stripped exactly)");
    for (unsigned i = 0; i < cur + cl && i < 16 && i < s->body_.size(); i++) CHECKM((unsigned char)s->body_[i] == snap[i], "accumulated bytes changed");
    WITNESS("record completed");
    if (cur > 0 && pl > 0) WITNESS("later record with padding");
    VERIF_END();
}

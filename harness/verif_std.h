// Pull the out-of-line libstdc++ template members into this TU so the IR
// contains the *real* library code (basic_string::_M_create/_M_append/...)
// instead of calls into libstdc++.so.  Must be included before
// "#define private public".
#ifndef VERIF_STD_H
#define VERIF_STD_H
#include <string>
#include <vector>
#include <map>
#include <set>
#include <list>
#include <memory>
#include <algorithm>
#include <cstring>
#include <cstdlib>
#include <stdexcept>
#include <sstream>
#include <iostream>
#include <fstream>
#include <istream>
#include <ostream>
#include <streambuf>
#include <locale>
#include <iomanip>
#include <iterator>
#include <functional>
#include <utility>
#include <limits>
#include <typeinfo>
#include <new>
#include <deque>
#include <stack>
#include <queue>
#include <bitset>
#include <numeric>
#include <complex>
#include <exception>
#include <atomic>
#include <mutex>
#include <thread>
#include <condition_variable>
#include <chrono>
#include <unordered_map>
#include <unordered_set>
#include <array>
#include <tuple>
#include <type_traits>
#include <cassert>
#include <cstdio>
#include <ctime>
#include <cmath>
#include <climits>
#include <cerrno>
#ifndef VERIF_NATIVE
template class std::basic_string<char>;
template class std::basic_streambuf<char>;
#endif
#endif

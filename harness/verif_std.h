// Pull the out-of-line libstdc++ template members into this TU so the IR
// contains the *real* library code (basic_string::_M_create/_M_append/...)
// instead of calls into libstdc++.so.  Must be included before
// "#define private public".
#ifndef VERIF_STD_H
#define VERIF_STD_H
#include <string>
#include <vector>
#include <map>
#include <set>
#include <list>
#include <memory>
#include <algorithm>
#include <cstring>
#include <cstdlib>
#include <stdexcept>
#ifndef VERIF_NATIVE
template class std::basic_string<char>;
#endif
#endif

#!/bin/bash
# confirm a seeded change produced by a sub-agent: tool/confirm_seed.sh <worktree> <ctest-regex>
# prints: tests-with-change, demo-with-change (must fail), demo-without-change (must pass)
W=$1; RX=$2
cd $W || exit 2
[ -s seed_out/patch.diff ] || { echo "no patch"; exit 2; }
git checkout -q -- . 2>/dev/null; git apply seed_out/patch.diff || { echo "patch does not apply"; exit 2; }
bdemo() { g++ -std=c++11 -g -w -I$W -I$W/private -I$W/booster -I$W/_build -I$W/_build/booster seed_out/demo.cpp -o seed_out/demo.bin -L$W/_build -L$W/_build/booster -lcppcms -lbooster -lpthread -Wl,-rpath,$W/_build -Wl,-rpath,$W/_build/booster 2>&1 | tail -3; }
ninja -C _build -j8 >/dev/null 2>&1 || { echo "BUILD-FAILED with change"; exit 2; }
echo "--- existing tests with the change ($RX)"
(cd _build && ctest -R "$RX" --timeout 300 2>&1 | tail -4)
bdemo; timeout 300 seed_out/demo.bin >$W/seed_out/with.txt 2>&1; RC1=$?
echo "--- demo WITH change: exit $RC1"; tail -2 $W/seed_out/with.txt
git checkout -q -- .
ninja -C _build -j8 >/dev/null 2>&1 || { echo "BUILD-FAILED without change"; exit 2; }
bdemo; timeout 300 seed_out/demo.bin >$W/seed_out/without.txt 2>&1; RC2=$?
echo "--- demo WITHOUT change: exit $RC2"; tail -2 $W/seed_out/without.txt
git apply seed_out/patch.diff
if [ $RC1 -ne 0 ] && [ $RC2 -eq 0 ]; then echo "CONFIRMED"; else echo "NOT-CONFIRMED"; fi

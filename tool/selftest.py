#!/usr/bin/env python3
"""setup_cmd: offline self-test of the tool chain (nothing is downloaded or cached)."""
import os, subprocess, sys, tempfile, shutil, py_compile
ROOT = os.path.dirname(os.path.dirname(os.path.abspath(__file__)))
for f in ("ir2c.py", "llvmc.py", "check.py", "obligations.py", "gen_manifest.py"):
    py_compile.compile(os.path.join(ROOT, "tool", f), doraise=True)
d = tempfile.mkdtemp(prefix="verif-selftest-", dir="/var/tmp")
try:
    src = os.path.join(d, "t.cpp")
    open(src, "w").write('extern "C" unsigned char nondet_u8() noexcept; extern "C" void verif_assert(bool,const char*) noexcept;\n'
                         'extern "C" void h_self(){ unsigned char a=nondet_u8(); unsigned b=a; b=b*2u; verif_assert((b&1u)==0,"even"); verif_assert(false,"WITNESS end"); }\n')
    subprocess.check_call(["clang++-14", "-std=c++11", "-O1", "-S", "-emit-llvm", src, "-o", os.path.join(d, "t.ll")])
    subprocess.check_call([sys.executable, os.path.join(ROOT, "tool", "ir2c.py"), os.path.join(d, "t.ll"), "-o", os.path.join(d, "t.c"), "--entry", "h_self"])
    out = subprocess.run(["cbmc", "-I", os.path.join(ROOT, "models"), os.path.join(d, "t.c"), os.path.join(ROOT, "models", "models.c"),
                          "--function", "verif_main_h_self", "--no-malloc-may-fail", "--drop-unused-functions"],
                         stdout=subprocess.PIPE, stderr=subprocess.STDOUT).stdout.decode()
    assert "even: SUCCESS" in out and "WITNESS end: FAILURE" in out, out[-2000:]
    print("selftest ok: clang-14 IR -> ir2c -> cbmc")
finally:
    shutil.rmtree(d, ignore_errors=True)

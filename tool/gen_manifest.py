#!/usr/bin/env python3
"""Regenerate MANIFEST.json from tool/obligations.py (claims only what exists)."""
import json, os, sys
ROOT = os.path.dirname(os.path.dirname(os.path.abspath(__file__)))
sys.path.insert(0, os.path.join(ROOT, "tool"))
import obligations as OB

ALL = ["C%02d" % i for i in range(1, 21)]
checks = []
for pid in ALL:
    if pid not in OB.PROPS:
        continue
    P = OB.PROPS[pid]
    obl = P["obligations"]
    text = P.get("claim") or ("Bounded symbolic checking (CBMC/SAT) of the real functions, translated from clang IR: " +
                               "; ".join("%s %s" % (o["id"], o["desc"]) for o in obl))
    checks.append(dict(
        property_id=pid,
        quick_cmd="bin/check %s --tier quick" % pid,
        thorough_cmd="bin/check %s --tier thorough" % pid,
        evidence_file="/verif/evidence/%s.json" % pid,
        replay_cmd_template="bin/check --replay {path}",
        engine="ir2c+cbmc",
        level_claimed=dict(category=P.get("level", "model_checking"), text=text[:4000], design_ref="DESIGN.md section 5, " + pid),
        level_note=("Holds for all inputs inside the bounds listed per obligation in the evidence file (unwinding assertions on). "
                    "Trusted base: clang-14 IR of the real sources, tool/ir2c.py (validated on concrete vectors each run), models/models.c "
                    "(libc/libsupc++ boundary, heap model with exact size check), CBMC 6.11. Outside the claim: " + P.get("outside", "")),
        technique="bounded model checking (CBMC, SAT) of C translated from the LLVM IR of the real C++ units; counterexamples replayed natively under ASan",
    ))
na = [dict(property_id=p, reason=OB.NOT_APPLICABLE.get(p, "no obligation built yet for this property (work in progress); see DESIGN.md section 6"))
      for p in ALL if p not in OB.PROPS]
m = dict(
    version=1,
    setup_cmd="python3 tool/selftest.py",
    hooks=dict(guard="CPPCMS_VERIF", enable="no source hooks are needed: harness TUs #include the real units; -DCPPCMS_VERIF is passed for uniformity",
               baseline_off_cmd="ctest --test-dir /repo/_build -j8 --timeout 900", source_commits=[], add_only=True),
    engines=[dict(name="ir2c+cbmc", path="tool/check.py", serves_properties=[c["property_id"] for c in checks],
                  kind_free_text="clang++-14 -O1 LLVM IR of harness+real unit -> tool/ir2c.py (IR to C) -> cbmc 6.11 (SAT); native ASan replay of counterexamples; translator validated per run")],
    checks=checks,
    notes="Every claim is bounded; bounds are in evidence/<id>.json per obligation. known_findings.txt lists fixed defects.",
    not_applicable=na,
)
json.dump(m, open(os.path.join(ROOT, "MANIFEST.json"), "w"), indent=1)
print("MANIFEST.json: %d checks, %d not_applicable" % (len(checks), len(na)))

#!/usr/bin/env python3
"""ir2c: translate the functions reachable from given entry points of an LLVM-14
IR module (typed pointers) into one C file for CBMC / gcc.

Design points (see DESIGN.md 2.2):
  * integers are unsigned C types with explicit wrap; signed ops cast;
  * LLVM struct/array types are mirrored as C structs (arrays are wrapped in a
    one-member struct) and checked against the DataLayout by _Static_assert;
  * exceptions: a global pending-exception pointer (verif_exc); every call that
    may unwind is followed by a test, invoke branches to its landing pad;
  * anything not understood becomes a reachable assertion failure naming the
    construct ("ir2c-unsupported") -- never silently skipped;
  * defined functions are emitted as F_<name>, external ones are called as
    X_<name> with every pointer parameter/return typed void*; globals are G_<name>.
"""
import sys, re, argparse, json, math
import llvmc as L

STD_TI = {
    "_ZTISt9exception": 1, "_ZTISt13runtime_error": 2, "_ZTISt11logic_error": 3,
    "_ZTISt12length_error": 4, "_ZTISt12out_of_range": 5,
    "_ZTISt16invalid_argument": 6, "_ZTISt9bad_alloc": 7, "_ZTISt8bad_cast": 8,
    "_ZTISt20bad_array_new_length": 9, "_ZTINSt8ios_base7failureB5cxx11E": 10,
    "_ZTISt12system_error": 11, "_ZTISt14overflow_error": 12,
    "_ZTISt11range_error": 13, "_ZTISt12domain_error": 14,
    "_ZTISt15underflow_error": 15, "_ZTISt10bad_typeid": 16,
    "_ZTISt17bad_function_call": 17, "_ZTISt13bad_exception": 18,
    "_ZTISt12bad_weak_ptr": 19,
}
STD_PARENT = {2: [1], 3: [1], 4: [3], 5: [3], 6: [3], 7: [1], 8: [1], 9: [7],
              10: [11], 11: [2], 12: [2], 13: [2], 14: [3], 15: [2], 16: [1],
              17: [1], 18: [1], 19: [1]}
FIRST_LOCAL_TI = 32

SKIP_INTRINSICS = ("llvm.lifetime.", "llvm.dbg.", "llvm.experimental.noalias",
                   "llvm.invariant.", "llvm.assume", "llvm.prefetch",
                   "llvm.stacksave", "llvm.stackrestore", "llvm.donothing",
                   "llvm.var.annotation", "llvm.sideeffect")


class Unsupported(Exception):
    pass


def san(name):
    s = re.sub(r"[^A-Za-z0-9_]", "_", name)
    return s


class Translator:
    def __init__(self, path, entries, drop=(), watch=False, keep_assume=False, noop=()):
        self.ctx, self.mod = L.parse_ir(path)
        self.td = L.GetModuleDataLayout(self.mod)
        self.entries = entries
        self.drop = [re.compile(x) for x in drop]
        self.noop = [re.compile(x) for x in noop]
        self.nooped = []
        self.talloc = {}
        self.vt_aps = None
        self.vcall_n = 0
        self.cut = []
        self.cutted = []
        self.watch = watch
        self.tcache = {}
        self.structs = []      # (ty, cname) in registration order
        self.arrays = []
        self.fntypes = []
        self.gname = {}        # global/func value ptr -> C name
        self.used_names = {}
        self.fn_defined = {}   # ptr -> bool
        self.reach_fn = []
        self.reach_gl = []
        self.seen = set()
        self.ti_ids = dict()   # typeinfo global name -> id
        self.ti_parents = dict(STD_PARENT)
        self.extern_used = {}
        self.unsupported = []
        self.strings = {}
        self.stats = {"functions": 0, "instructions": 0}
        self.with_ctors = True
        self.extra_roots = []

    # ------------------------------------------------------------------ types
    def ctype(self, ty):
        key = ty
        if key in self.tcache:
            return self.tcache[key]
        k = L.GetTypeKind(ty)
        if k == L.TK_Integer:
            w = L.GetIntTypeWidth(ty)
            if w == 1:
                r = "_Bool"
            elif w <= 8:
                r = "uint8_t"
            elif w <= 16:
                r = "uint16_t"
            elif w <= 32:
                r = "uint32_t"
            elif w <= 64:
                r = "uint64_t"
            elif w <= 128:
                r = "unsigned __int128"
            else:
                raise Unsupported("integer width %d" % w)
        elif k == L.TK_Void:
            r = "void"
        elif k == L.TK_Float:
            r = "float"
        elif k == L.TK_Double:
            r = "double"
        elif k == L.TK_X86_FP80:
            r = "long double"
        elif k == L.TK_Pointer:
            el = L.GetElementType(ty)
            ek = L.GetTypeKind(el)
            if ek == L.TK_Function:
                r = self.ctype(el) + "*"
            else:
                # register placeholder first to break cycles
                if ek == L.TK_Struct:
                    r = self.struct_name(el) + "*"
                else:
                    r = self.ctype(el) + "*"
        elif k == L.TK_Struct:
            r = self.struct_name(ty)
        elif k == L.TK_Array:
            r = "struct A%d" % len(self.arrays)
            self.tcache[key] = r
            self.arrays.append((ty, r))
            self.ctype(L.GetElementType(ty))
            return r
        elif k == L.TK_Function:
            r = "FT%d" % len(self.fntypes)
            self.tcache[key] = r
            self.fntypes.append((ty, r))
            self.ctype(L.GetReturnType(ty))
            for p in L.param_types(ty):
                self.ctype(p)
            return r
        elif k == L.TK_Vector:
            raise Unsupported("vector type " + L.type_str(ty))
        elif k in (L.TK_Label, L.TK_Metadata, L.TK_Token):
            r = "void"
        else:
            raise Unsupported("type kind %d %s" % (k, L.type_str(ty)))
        self.tcache[key] = r
        return r

    def struct_name(self, ty):
        key = ("S", ty)
        if key in self.tcache:
            return self.tcache[key]
        r = "struct S%d" % len(self.structs)
        self.tcache[key] = r
        self.tcache[ty] = r
        self.structs.append((ty, r))
        if not L.IsOpaqueStruct(ty):
            for i in range(L.CountStructElementTypes(ty)):
                self.ctype(L.StructGetTypeAtIndex(ty, i))
        return r

    def is_ptr(self, ty):
        return L.GetTypeKind(ty) == L.TK_Pointer

    def is_int(self, ty):
        return L.GetTypeKind(ty) == L.TK_Integer

    def is_fp(self, ty):
        return L.GetTypeKind(ty) in (L.TK_Float, L.TK_Double, L.TK_X86_FP80)

    def is_agg(self, ty):
        return L.GetTypeKind(ty) in (L.TK_Struct, L.TK_Array)

    def width(self, ty):
        return L.GetIntTypeWidth(ty)

    def emit_types(self):
        out = []
        # all types must be registered before calling this; registration may
        # grow lists while we iterate, so loop by index.
        done_s = 0
        # force registration closure
        i = 0
        while i < len(self.structs) or False:
            i += 1
        for ty, n in self.structs:
            nm = L.GetStructName(ty)
            out.append("%s; /* %s */" % (n, nm.decode() if nm else "literal"))
        for ty, n in self.arrays:
            out.append("%s;" % n)
        for ty, n in self.fntypes:
            rt = self.ctype(L.GetReturnType(ty))
            ps = [self.ctype(p) for p in L.param_types(ty)]
            if L.IsFunctionVarArg(ty) and ps:
                ps.append("...")
            elif not ps and not L.IsFunctionVarArg(ty):
                ps = ["void"]
            out.append("typedef %s %s(%s);" % (rt, n, ", ".join(ps)))
        # bodies in dependency order (by-value containment)
        emitted = set()
        order = []

        def visit(ty):
            if ty in emitted:
                return
            k = L.GetTypeKind(ty)
            if k == L.TK_Struct:
                if L.IsOpaqueStruct(ty):
                    emitted.add(ty)
                    return
                emitted.add(ty)
                for i in range(L.CountStructElementTypes(ty)):
                    visit(L.StructGetTypeAtIndex(ty, i))
                order.append(ty)
            elif k == L.TK_Array:
                emitted.add(ty)
                visit(L.GetElementType(ty))
                order.append(ty)

        for ty, n in list(self.structs):
            visit(ty)
        for ty, n in list(self.arrays):
            visit(ty)
        for ty in order:
            k = L.GetTypeKind(ty)
            n = self.ctype(ty)
            size = L.ABISizeOfType(self.td, ty)
            if k == L.TK_Struct:
                ne = L.CountStructElementTypes(ty)
                fields = []
                for i in range(ne):
                    fields.append("%s f%d;" % (self.ctype(L.StructGetTypeAtIndex(ty, i)), i))
                if ne == 0:
                    fields.append("uint8_t verif_empty[0];")
                packed = " __attribute__((packed))" if L.IsPackedStruct(ty) else ""
                out.append("%s { %s }%s;" % (n, " ".join(fields), packed))
                out.append("_Static_assert(sizeof(%s)==%d, \"layout %s\");" % (n, size, n))
                for i in range(ne):
                    if L.ABISizeOfType(self.td, L.StructGetTypeAtIndex(ty, i)) == 0:
                        continue
                    off = L.OffsetOfElement(self.td, ty, i)
                    out.append("_Static_assert(__builtin_offsetof(%s,f%d)==%d, \"layout %s.f%d\");" % (n, i, off, n, i))
            else:
                cnt = L.GetArrayLength(ty)
                out.append("%s { %s a[%d]; };" % (n, self.ctype(L.GetElementType(ty)), cnt))
                out.append("_Static_assert(sizeof(%s)==%d, \"layout %s\");" % (n, size, n))
        return out

    # ------------------------------------------------------------ reachability
    def cname(self, g):
        if g in self.gname:
            return self.gname[g]
        nm = L.name_of(g)
        k = L.GetValueKind(g)
        if k == L.VK_Function:
            defined = (not L.IsDeclaration(g)) and not any(r.search(nm) for r in self.drop)
            pref = "F_" if defined else "X_"
        else:
            pref = "G_"
        base = pref + san(nm)
        c = base
        i = 1
        while c in self.used_names and self.used_names[c] != g:
            i += 1
            c = "%s_%d" % (base, i)
        self.used_names[c] = g
        self.gname[g] = c
        return c

    def is_defined_fn(self, f):
        return (not L.IsDeclaration(f)) and not any(r.search(L.name_of(f)) for r in self.drop)

    def scan_const(self, v, work):
        k = L.GetValueKind(v)
        if k == L.VK_Function:
            if v not in self.seen:
                self.seen.add(v)
                work.append(v)
        elif k == L.VK_GlobalVariable:
            if v not in self.seen:
                self.seen.add(v)
                work.append(v)
        elif k == L.VK_GlobalAlias:
            self.scan_const(L.AliasGetAliasee(v), work)
        elif k in (L.VK_ConstantExpr, L.VK_ConstantArray, L.VK_ConstantStruct,
                   L.VK_ConstantVector):
            for o in L.operands(v):
                self.scan_const(o, work)

    def global_ctors(self):
        g = L.GetNamedGlobal(self.mod, b"llvm.global_ctors")
        res = []
        if not g:
            return res
        init = L.GetInitializer(g)
        if not init or L.GetValueKind(init) != L.VK_ConstantArray:
            return res
        items = []
        for e in L.operands(init):
            ops = L.operands(e)
            prio = L.ConstIntGetZExtValue(ops[0])
            fn = self.strip_casts(ops[1])
            if L.GetValueKind(fn) == L.VK_Function:
                items.append((prio, fn))
        items.sort(key=lambda x: x[0])
        return [f for _, f in items]

    def compute_reach(self):
        work = []
        self.ctors = self.global_ctors() if self.with_ctors else []
        for e in self.entries:
            f = L.GetNamedFunction(self.mod, e.encode())
            if not f:
                raise SystemExit("ir2c: entry %s not found" % e)
            self.seen.add(f)
            work.append(f)
        for f in self.ctors:
            if f not in self.seen:
                self.seen.add(f)
                work.append(f)
        for e in self.extra_roots:
            f = L.GetNamedFunction(self.mod, e.encode())
            if not f:
                raise SystemExit("ir2c: root %s not found" % e)
            if f not in self.seen:
                self.seen.add(f)
                work.append(f)
        while work:
            g = work.pop()
            k = L.GetValueKind(g)
            if k == L.VK_Function:
                self.reach_fn.append(g)
                if not self.is_defined_fn(g):
                    continue
                for bb in L.blocks(g):
                    for ins in L.instrs(bb):
                        op = L.GetInstructionOpcode(ins)
                        if op in (L.OP["Call"], L.OP["Invoke"]):
                            cv = L.GetCalledValue(ins)
                            if L.GetValueKind(cv) == L.VK_Function:
                                nm = L.name_of(cv)
                                if nm.startswith(SKIP_INTRINSICS) or nm == "llvm.eh.typeid.for":
                                    # typeid.for references a typeinfo: id only
                                    continue
                        for o in L.operands(ins):
                            ok = L.GetValueKind(o)
                            if ok in (L.VK_Function, L.VK_GlobalVariable, L.VK_GlobalAlias,
                                      L.VK_ConstantExpr, L.VK_ConstantArray, L.VK_ConstantStruct):
                                self.scan_const(o, work)
                        if op == L.OP["LandingPad"]:
                            pass
            else:
                self.reach_gl.append(g)
                if not L.IsDeclaration(g):
                    init = L.GetInitializer(g)
                    if init:
                        self.scan_const(init, work)

    # ---------------------------------------------------------------- typeinfo
    def strip_casts(self, v):
        while L.GetValueKind(v) == L.VK_ConstantExpr and L.GetConstOpcode(v) in (
                L.OP["BitCast"], L.OP["GetElementPtr"], L.OP["AddrSpaceCast"]):
            v = L.GetOperand(v, 0)
        if L.GetValueKind(v) == L.VK_GlobalAlias:
            return self.strip_casts(L.AliasGetAliasee(v))
        return v

    def ti_id(self, v):
        """id for a typeinfo constant operand (may be null = catch-all -> 0)"""
        if L.GetValueKind(v) == L.VK_ConstantPointerNull:
            return 0
        g = self.strip_casts(v)
        if L.GetValueKind(g) != L.VK_GlobalVariable:
            raise Unsupported("typeinfo operand " + L.to_str(v))
        nm = L.name_of(g)
        if nm in STD_TI:
            return STD_TI[nm]
        if nm in self.ti_ids:
            return self.ti_ids[nm]
        i = FIRST_LOCAL_TI + len(self.ti_ids)
        self.ti_ids[nm] = i
        parents = []
        if not L.IsDeclaration(g):
            init = L.GetInitializer(g)
            if init and L.GetValueKind(init) == L.VK_ConstantStruct:
                for idx, o in enumerate(L.operands(init)):
                    if idx < 2:
                        continue
                    if self.is_ptr(L.TypeOf(o)):
                        b = self.strip_casts(o)
                        if L.GetValueKind(b) == L.VK_GlobalVariable and L.name_of(b).startswith("_ZTI"):
                            parents.append(self.ti_id(b))
        else:
            sys.stderr.write("ir2c: warning: external typeinfo %s has unknown bases\n" % nm)
        self.ti_parents[i] = parents
        return i

    def emit_isa(self):
        n = FIRST_LOCAL_TI + len(self.ti_ids)
        anc = {}

        def ancestors(i):
            if i in anc:
                return anc[i]
            s = {i}
            anc[i] = s
            for p in self.ti_parents.get(i, []):
                s |= ancestors(p)
            return s
        rows = []
        for i in range(n):
            a = ancestors(i)
            rows.append("{" + ",".join("1" if j in a else "0" for j in range(n)) + "}")
        out = ["static const uint8_t verif_isa_tab[%d][%d] = {%s};" % (n, n, ",".join(rows)),
               "_Bool verif_isa(uint32_t t, uint32_t c) { if (t >= %d || c >= %d) return 0; return verif_isa_tab[t][c]; }" % (n, n)]
        names = {v: k for k, v in STD_TI.items()}
        names.update({v: k for k, v in self.ti_ids.items()})
        out.append("/* typeinfo ids: %s */" % json.dumps({str(k): names[k] for k in sorted(names)}))
        return out

    # ------------------------------------------------------------------ values
    def cint(self, n, w):
        if w == 1:
            return "1" if n & 1 else "0"
        if w <= 32:
            ct = "uint8_t" if w <= 8 else "uint16_t" if w <= 16 else "uint32_t"
            return "((%s)%dU)" % (ct, n)
        if w <= 64:
            return "%dULL" % n
        lo = n & ((1 << 64) - 1)
        hi = n >> 64
        return "((((unsigned __int128)%dULL)<<64)|%dULL)" % (hi, lo)

    def const_int_value(self, v):
        ty = L.TypeOf(v)
        w = self.width(ty)
        if w <= 64:
            return L.ConstIntGetZExtValue(v), w
        s = L.to_str(v).split()[-1]
        n = int(s)
        if n < 0:
            n += 1 << w
        return n, w

    def zero(self, ty):
        k = L.GetTypeKind(ty)
        ct = self.ctype(ty)
        if k in (L.TK_Struct, L.TK_Array):
            return "((%s){0})" % ct
        return "((%s)0)" % ct

    def val(self, v):
        k = L.GetValueKind(v)
        if k in (L.VK_Argument, L.VK_Instruction):
            return self.local[v]
        if k == L.VK_ConstantInt:
            n, w = self.const_int_value(v)
            return self.cint(n, w)
        if k == L.VK_ConstantFP:
            loses = L.I(0)
            d = L.ConstRealGetDouble(v, L.C.byref(loses))
            ct = self.ctype(L.TypeOf(v))
            if math.isnan(d):
                return "((%s)__builtin_nan(\"\"))" % ct
            if math.isinf(d):
                return "((%s)%s__builtin_inf())" % (ct, "-" if d < 0 else "")
            return "((%s)%s)" % (ct, float.hex(d))
        if k == L.VK_ConstantPointerNull:
            return "((%s)0)" % self.ctype(L.TypeOf(v))
        if k in (L.VK_Undef, L.VK_Poison):
            return self.zero(L.TypeOf(v))
        if k == L.VK_GlobalVariable:
            return "(&%s)" % self.cname(v)
        if k == L.VK_Function:
            if not self.is_defined_fn(v):
                self.note_extern(v)
                return "((%s)&%s)" % (self.ctype(L.TypeOf(v)), self.cname(v))
            return "(&%s)" % self.cname(v)
        if k == L.VK_GlobalAlias:
            a = L.AliasGetAliasee(v)
            return "((%s)%s)" % (self.ctype(L.TypeOf(v)), self.val(a))
        if k == L.VK_ConstantExpr:
            return self.expr(v, L.GetConstOpcode(v), is_const=True)
        if k in (L.VK_ConstantAggregateZero, L.VK_ConstantStruct, L.VK_ConstantArray,
                 L.VK_ConstantDataArray):
            return "((%s)%s)" % (self.ctype(L.TypeOf(v)), self.init(v))
        raise Unsupported("value kind %d: %s" % (k, L.to_str(v)[:120]))

    def init(self, v):
        """brace initialiser (for globals and compound literals)"""
        k = L.GetValueKind(v)
        ty = L.TypeOf(v)
        if k == L.VK_ConstantAggregateZero or (k in (L.VK_Undef, L.VK_Poison) and self.is_agg(ty)):
            return "{0}"
        if k == L.VK_ConstantStruct:
            ops = L.operands(v)
            if not ops:
                return "{0}"
            return "{" + ", ".join(self.init(o) for o in ops) + "}"
        if k == L.VK_ConstantArray:
            ops = L.operands(v)
            return "{{" + ", ".join(self.init(o) for o in ops) + "}}"
        if k == L.VK_ConstantDataArray:
            n = L.GetArrayLength(ty)
            et = L.GetElementType(ty)
            if L.IsConstantString(v) or (self.is_int(et) and self.width(et) == 8):
                bs = L.const_string(v)
                return "{{" + ",".join(str(b) for b in bs) + "}}"
            return "{{" + ", ".join(self.init(L.GetElementAsConstant(v, i)) for i in range(n)) + "}}"
        return self.val(v)

    # ------------------------------------------------------------- expressions
    def U(self, w):
        return "uint32_t" if w <= 32 else "uint64_t" if w <= 64 else "unsigned __int128"

    def sx(self, e, w):
        """expression e (unsigned, width w) as a signed C value"""
        if w == 1:
            return "((int32_t)-(int32_t)(%s))" % e
        if w in (8, 16, 32, 64):
            return "((int%d_t)(%s))" % (w, e)
        if w == 128:
            return "((__int128)(%s))" % e
        if w < 64:
            return "((int64_t)(((uint64_t)(%s))<<%d)>>%d)" % (e, 64 - w, 64 - w)
        return "((__int128)(((unsigned __int128)(%s))<<%d)>>%d)" % (e, 128 - w, 128 - w)

    def norm(self, e, ty):
        w = self.width(ty)
        ct = self.ctype(ty)
        if w == 1:
            return "((_Bool)((%s)&1))" % e
        if w in (8, 16, 32, 64, 128):
            return "((%s)(%s))" % (ct, e)
        mask = (1 << w) - 1
        return "((%s)((%s)&%s))" % (ct, e, self.cint(mask, 64 if w < 64 else 128))

    def expr(self, v, op, is_const=False):
        """C expression for instruction/constant-expression v with opcode op"""
        N = L.OPNAME.get(op, str(op))
        ty = L.TypeOf(v)
        ops = L.operands(v)
        if N in ("Add", "Sub", "Mul", "UDiv", "URem", "And", "Or", "Xor"):
            w = self.width(ty)
            a, b = self.val(ops[0]), self.val(ops[1])
            c = {"Add": "+", "Sub": "-", "Mul": "*", "UDiv": "/", "URem": "%", "And": "&", "Or": "|", "Xor": "^"}[N]
            u = self.U(w)
            return self.norm("(%s)%s %s (%s)%s" % (u, a, c, u, b), ty)
        if N in ("SDiv", "SRem"):
            w = self.width(ty)
            a, b = self.val(ops[0]), self.val(ops[1])
            c = "/" if N == "SDiv" else "%"
            return self.norm("%s %s %s" % (self.sx(a, w), c, self.sx(b, w)), ty)
        if N in ("Shl", "LShr"):
            w = self.width(ty)
            a, b = self.val(ops[0]), self.val(ops[1])
            u = self.U(w)
            c = "<<" if N == "Shl" else ">>"
            return self.norm("((%s)%s < %d ? (%s)%s %s (%s)%s : 0)" % (u, b, w, u, a, c, u, b), ty)
        if N == "AShr":
            w = self.width(ty)
            a, b = self.val(ops[0]), self.val(ops[1])
            u = self.U(w)
            sa = self.sx(a, w)
            return self.norm("((%s)%s < %d ? (%s >> (%s)%s) : (%s < 0 ? -1 : 0))" % (u, b, w, sa, u, b, sa), ty)
        if N in ("FAdd", "FSub", "FMul", "FDiv"):
            c = {"FAdd": "+", "FSub": "-", "FMul": "*", "FDiv": "/"}[N]
            return "(%s %s %s)" % (self.val(ops[0]), c, self.val(ops[1]))
        if N == "FNeg":
            return "(-%s)" % self.val(ops[0])
        if N == "FRem":
            return "__builtin_fmod(%s,%s)" % (self.val(ops[0]), self.val(ops[1]))
        if N == "ICmp":
            pred = L.ICMP[L.GetICmpPredicate(v)]
            a, b = self.val(ops[0]), self.val(ops[1])
            oty = L.TypeOf(ops[0])
            if self.is_ptr(oty):
                if pred in ("eq", "ne"):
                    return "((_Bool)((void*)%s %s (void*)%s))" % (a, "==" if pred == "eq" else "!=", b)
                a = "((uint64_t)%s)" % a
                b = "((uint64_t)%s)" % b
                w = 64
            else:
                w = self.width(oty)
            cop = {"eq": "==", "ne": "!=", "ugt": ">", "uge": ">=", "ult": "<", "ule": "<=",
                   "sgt": ">", "sge": ">=", "slt": "<", "sle": "<="}[pred]
            if pred[0] == "s":
                return "((_Bool)(%s %s %s))" % (self.sx(a, w), cop, self.sx(b, w))
            u = self.U(w)
            return "((_Bool)((%s)%s %s (%s)%s))" % (u, a, cop, u, b)
        if N == "FCmp":
            pred = L.FCMP[L.GetFCmpPredicate(v)]
            a, b = self.val(ops[0]), self.val(ops[1])
            tbl = {"oeq": "(%s == %s)", "ogt": "(%s > %s)", "oge": "(%s >= %s)", "olt": "(%s < %s)",
                   "ole": "(%s <= %s)", "une": "(%s != %s)"}
            if pred in tbl:
                return "((_Bool)%s)" % (tbl[pred] % (a, b))
            if pred == "one":
                return "((_Bool)(%s < %s || %s > %s))" % (a, b, a, b)
            if pred == "ord":
                return "((_Bool)(%s == %s && %s == %s))" % (a, a, b, b)
            if pred == "uno":
                return "((_Bool)(%s != %s || %s != %s))" % (a, a, b, b)
            if pred == "ueq":
                return "((_Bool)!(%s < %s || %s > %s))" % (a, b, a, b)
            if pred == "ugt":
                return "((_Bool)!(%s <= %s))" % (a, b)
            if pred == "uge":
                return "((_Bool)!(%s < %s))" % (a, b)
            if pred == "ult":
                return "((_Bool)!(%s >= %s))" % (a, b)
            if pred == "ule":
                return "((_Bool)!(%s > %s))" % (a, b)
            if pred == "true":
                return "1"
            if pred == "false":
                return "0"
        if N == "Select":
            return "(%s ? %s : %s)" % (self.val(ops[0]), self.val(ops[1]), self.val(ops[2]))
        if N == "Trunc":
            return self.norm(self.val(ops[0]), ty)
        if N == "ZExt":
            return "((%s)%s)" % (self.ctype(ty), self.val(ops[0]))
        if N == "SExt":
            w0 = self.width(L.TypeOf(ops[0]))
            return self.norm(self.sx(self.val(ops[0]), w0), ty)
        if N == "PtrToInt":
            return self.norm("(uint64_t)%s" % self.val(ops[0]), ty)
        if N == "IntToPtr":
            return "((%s)(uint64_t)%s)" % (self.ctype(ty), self.val(ops[0]))
        if N in ("BitCast", "AddrSpaceCast"):
            sty = L.TypeOf(ops[0])
            if self.is_ptr(ty) and self.is_ptr(sty):
                path = self.first_field_path(L.GetElementType(sty), L.GetElementType(ty))
                if path is not None and path != "":
                    return "(&(*%s)%s)" % (self.val(ops[0]), path)
                return "((%s)%s)" % (self.ctype(ty), self.val(ops[0]))
            sk, dk = L.GetTypeKind(sty), L.GetTypeKind(ty)
            if sk == L.TK_Double and dk == L.TK_Integer:
                return "verif_d2u(%s)" % self.val(ops[0])
            if sk == L.TK_Integer and dk == L.TK_Double:
                return "verif_u2d(%s)" % self.val(ops[0])
            if sk == L.TK_Float and dk == L.TK_Integer:
                return "verif_f2u(%s)" % self.val(ops[0])
            if sk == L.TK_Integer and dk == L.TK_Float:
                return "verif_u2f(%s)" % self.val(ops[0])
            raise Unsupported("bitcast " + L.to_str(v)[:100])
        if N == "UIToFP":
            return "((%s)%s)" % (self.ctype(ty), self.val(ops[0]))
        if N == "SIToFP":
            w0 = self.width(L.TypeOf(ops[0]))
            return "((%s)%s)" % (self.ctype(ty), self.sx(self.val(ops[0]), w0))
        if N in ("FPTrunc", "FPExt"):
            return "((%s)%s)" % (self.ctype(ty), self.val(ops[0]))
        if N in ("FPToSI", "FPToUI"):
            w = self.width(ty)
            sk = L.GetTypeKind(L.TypeOf(ops[0]))
            if sk == L.TK_X86_FP80:
                raise Unsupported("fp80 to int")
            fn = "verif_%s%d" % ("fptosi" if N == "FPToSI" else "fptoui", 64 if w > 32 else 32)
            return self.norm("%s((double)%s)" % (fn, self.val(ops[0])), ty)
        if N == "GetElementPtr":
            return self.gep(v, ops)
        if N == "Freeze":
            return self.val(ops[0])
        if N == "ExtractValue":
            idx = L.GetIndices(v)
            n = L.GetNumIndices(v)
            return self.val(ops[0]) + self.agg_path(L.TypeOf(ops[0]), [idx[i] for i in range(n)])
        raise Unsupported("opcode %s: %s" % (N, L.to_str(v)[:120]))

    def first_field_path(self, frm, to):
        """if 'to' is the type found at offset 0 inside 'frm' by descending first
        members, return the C member path (typed access instead of a cast)"""
        path = ""
        cur = frm
        for _ in range(12):
            if cur == to:
                return path
            k = L.GetTypeKind(cur)
            if k == L.TK_Struct and not L.IsOpaqueStruct(cur) and L.CountStructElementTypes(cur) > 0:
                path += ".f0"
                cur = L.StructGetTypeAtIndex(cur, 0)
            elif k == L.TK_Array and L.GetArrayLength(cur) > 0:
                path += ".a[0]"
                cur = L.GetElementType(cur)
            else:
                return None
        return None

    def alloc_elem_type(self, ins):
        """element type of a heap block, inferred from the non-i8 pointer types the result of
        operator new is bitcast to (a unique struct type wins over pointer-typed views such as
        the vptr slot); None => byte block"""
        cands = []
        bb = L.GetInstructionParent(ins)
        fn = L.GetBasicBlockParent(bb)
        for b in L.blocks(fn):
            for u in L.instrs(b):
                if L.GetInstructionOpcode(u) != L.OP["BitCast"]:
                    continue
                if L.GetOperand(u, 0) != ins:
                    continue
                t = L.TypeOf(u)
                if not self.is_ptr(t):
                    continue
                et = L.GetElementType(t)
                k = L.GetTypeKind(et)
                if k == L.TK_Integer and L.GetIntTypeWidth(et) == 8:
                    continue
                if k == L.TK_Function or (k == L.TK_Struct and L.IsOpaqueStruct(et)) or not L.TypeIsSized(et):
                    continue
                if L.ABISizeOfType(self.td, et) == 0:
                    continue
                if et not in cands:
                    cands.append(et)
        if not cands:
            return None
        structs = [c for c in cands if L.GetTypeKind(c) == L.TK_Struct]
        if len(structs) == 1:
            return structs[0]
        if len(structs) > 1:
            # nested views of the same object (derived / base as first member): take the largest
            structs.sort(key=lambda c: -L.ABISizeOfType(self.td, c))
            big = structs[0]
            if all(self.first_field_path(big, c) is not None for c in structs[1:]):
                return big
            return None
        if len(cands) == 1:
            return cands[0]
        return None

    def typed_alloc(self, ety, nconst):
        esz = L.ABISizeOfType(self.td, ety)
        if nconst is not None:
            cap = str(max(1, (nconst + esz - 1) // esz))
        else:
            cap = "((VERIF_MAX_ALLOC + %d - 1) / %d)" % (esz, esz)
        key = (ety, cap)
        if key not in self.talloc:
            self.talloc[key] = len(self.talloc)
            self.ctype(ety)
        return self.talloc[key]

    def emit_typed_allocs(self):
        out = []
        for (ety, cap), k in sorted(self.talloc.items(), key=lambda x: x[1]):
            ct = self.ctype(ety)
            out.append("#ifdef __CPROVER__")
            out.append("struct VH_%d { uint64_t size; %s payload[%s]; };" % (k, ct, cap))
            out.append("static void *verif_new_%d(uint64_t n) {" % k)
            out.append("  if (n > VERIF_HUGE_ALLOC) { verif_throw_std(VERIF_TI_bad_alloc); return 0; }")
            out.append("  __CPROVER_assert(n <= sizeof(((struct VH_%d*)0)->payload), \"allocation bound: typed request exceeds the block capacity (unwinding assertion)\");" % k)
            out.append("  __CPROVER_assume(n <= sizeof(((struct VH_%d*)0)->payload));" % k)
            out.append("  struct VH_%d *b = (struct VH_%d *)malloc(sizeof(struct VH_%d)); __CPROVER_assume(b != 0);" % (k, k, k))
            out.append("  b->size = n; return &b->payload[0]; }")
            out.append("#else")
            out.append("static void *verif_new_%d(uint64_t n) { void *p = malloc(n ? n : 1); return p; }" % k)
            out.append("#endif")
        return out

    def agg_path(self, ty, idxs):
        s = ""
        for i in idxs:
            k = L.GetTypeKind(ty)
            if k == L.TK_Struct:
                s += ".f%d" % i
                ty = L.StructGetTypeAtIndex(ty, i)
            elif k == L.TK_Array:
                s += ".a[%d]" % i
                ty = L.GetElementType(ty)
            else:
                raise Unsupported("agg path")
        return s

    def idx_expr(self, o):
        if L.GetValueKind(o) == L.VK_ConstantInt:
            return str(L.ConstIntGetSExtValue(o))
        w = self.width(L.TypeOf(o))
        return self.sx(self.val(o), w)

    def gep(self, v, ops, lvalue=False):
        base = ops[0]
        bty = L.TypeOf(base)
        if not self.is_ptr(bty):
            raise Unsupported("vector gep")
        cur = L.GetElementType(bty)
        b = self.val(base)
        first = ops[1]
        if L.GetValueKind(first) == L.VK_ConstantInt and L.ConstIntGetSExtValue(first) == 0:
            e = "(*%s)" % b
        else:
            e = "%s[%s]" % (b, self.idx_expr(first))
        if L.GetTypeKind(cur) == L.TK_Function:
            raise Unsupported("gep on function")
        for o in ops[2:]:
            k = L.GetTypeKind(cur)
            if k == L.TK_Struct:
                i = L.ConstIntGetZExtValue(o)
                e += ".f%d" % i
                cur = L.StructGetTypeAtIndex(cur, i)
            elif k == L.TK_Array:
                e += ".a[%s]" % self.idx_expr(o)
                cur = L.GetElementType(cur)
            else:
                raise Unsupported("gep into " + L.type_str(cur))
        if lvalue:
            return e
        return "(&%s)" % e

    def deref(self, p):
        """lvalue expression for *p; a GEP instruction is spelled out as a member/array
        access so CBMC keeps the access inside the member (a temporary pointer with a
        symbolic index degrades to a whole-object byte update)"""
        if L.GetValueKind(p) == L.VK_Instruction and L.GetInstructionOpcode(p) == L.OP["GetElementPtr"]:
            try:
                return self.gep(p, L.operands(p), lvalue=True)
            except Unsupported:
                pass
        return "*%s" % self.val(p)

    # ------------------------------------------------------------------ calls
    def note_extern(self, f):
        nm = L.name_of(f)
        if f not in self.extern_used:
            self.extern_used[f] = nm

    def extern_proto(self, f):
        fty = L.GetElementType(L.TypeOf(f))
        rt = L.GetReturnType(fty)
        r = "void*" if self.is_ptr(rt) else self.ctype(rt)
        ps = ["void*" if self.is_ptr(p) else self.ctype(p) for p in L.param_types(fty)]
        if L.IsFunctionVarArg(fty):
            ps.append("...")
        if not ps:
            ps = ["void"]
        return "%s %s(%s);" % (r, self.cname(f), ", ".join(ps))

    def string_operand(self, v):
        g = self.strip_casts(v)
        if L.GetValueKind(g) == L.VK_GlobalVariable and not L.IsDeclaration(g):
            init = L.GetInitializer(g)
            if init and L.GetValueKind(init) == L.VK_ConstantDataArray:
                return L.const_string(init).split(b"\0")[0].decode("latin1")
            if init and L.GetValueKind(init) == L.VK_ConstantAggregateZero:
                return ""
        return None

    def cstr(self, s):
        return '"' + "".join(c if (32 <= ord(c) < 127 and c not in '"\\') else "\\%03o" % ord(c) for c in s) + '"'

    def may_unwind(self, ins, callee):
        if callee is not None and (L.name_of(callee).startswith(("nondet_", "verif_", "__CPROVER"))):
            return False
        if L.call_has_attr(ins, 0xFFFFFFFF, "nounwind"):
            return False
        if callee is not None and L.fn_has_attr(callee, "nounwind"):
            return False
        return True

    def call(self, ins, lines):
        """emit call; returns (may_unwind)"""
        cv = L.GetCalledValue(ins)
        nargs = L.GetNumArgOperands(ins)
        args = [L.GetOperand(ins, i) for i in range(nargs)]
        ty = L.TypeOf(ins)
        has_res = L.GetTypeKind(ty) != L.TK_Void
        dst = (self.local[ins] + " = ") if has_res else ""
        callee = None
        tgt = cv
        if L.GetValueKind(tgt) == L.VK_GlobalAlias:
            tgt = self.strip_casts(tgt)
        if L.GetValueKind(tgt) == L.VK_ConstantExpr and L.GetConstOpcode(tgt) == L.OP["BitCast"]:
            inner = self.strip_casts(tgt)
            if L.GetValueKind(inner) == L.VK_Function:
                # call through bitcast function: keep as indirect call with cast
                pass
        if L.GetValueKind(tgt) == L.VK_Function:
            callee = tgt
            nm = L.name_of(callee)
            r = self.special_call(ins, nm, args, dst, ty, lines)
            if r is not None:
                return r
            if self.is_defined_fn(callee):
                a = ", ".join(self.val(x) for x in args)
                lines.append("%s%s(%s);" % (dst, self.cname(callee), a))
            else:
                self.note_extern(callee)
                al = []
                for x in args:
                    if self.is_ptr(L.TypeOf(x)):
                        al.append("(void*)%s" % self.val(x))
                    else:
                        al.append(self.val(x))
                call = "%s(%s)" % (self.cname(callee), ", ".join(al))
                if has_res and self.is_ptr(ty):
                    call = "(%s)%s" % (self.ctype(ty), call)
                lines.append("%s%s;" % (dst, call))
            return self.may_unwind(ins, callee)
        if L.GetValueKind(tgt) == L.VK_InlineAsm:
            raise Unsupported("inline asm")
        # indirect
        fty = L.GetCalledFunctionType(ins)
        ft = self.ctype(fty)
        slot = self.virtual_slot(cv)
        if slot is not None:
            k, vptr = slot
            cands = self.vtable_candidates(k, len(args), fty)
            if cands:
                # dispatch on the vptr value (address points of the known vtables): comparisons of
                # addresses of distinct globals fold during symbolic execution, so a known dynamic
                # type selects one callee instead of every function with a compatible signature
                s = "{ void* vp = (void*)%s; " % self.val(vptr)
                seen_pairs = set()
                first = True
                for (f, vg, arr_i, ap) in cands:
                    key = (vg, arr_i, ap)
                    if key in seen_pairs:
                        continue
                    seen_pairs.add(key)
                    if vg not in self.seen:
                        continue  # vtable not reachable from the entry: no object of that type exists
                    cfty = L.GetElementType(L.TypeOf(f))
                    ptys = L.param_types(cfty)
                    al = []
                    for x, pt in zip(args, ptys):
                        if self.is_defined_fn(f):
                            al.append(("(%s)%s" % (self.ctype(pt), self.val(x))) if self.is_ptr(pt) else self.val(x))
                        else:
                            al.append(("(void*)%s" % self.val(x)) if self.is_ptr(pt) else self.val(x))
                    if not self.is_defined_fn(f):
                        self.note_extern(f)
                    call = "%s(%s)" % (self.cname(f), ", ".join(al))
                    if has_res:
                        call = "%s(%s)%s" % (dst, self.ctype(ty), call)
                    s += "%sif (vp == (void*)&%s.f%d.a[%d]) { %s; } " % ("" if first else "else ", self.cname(vg), arr_i, ap, call)
                    first = False
                if not first:
                    s += "else { __CPROVER_assert(0, \"ir2c: virtual call on an object whose vtable is not among the known ones\"); __CPROVER_assume(0); } }"
                    lines.append(s)
                    return self.may_unwind(ins, None)
        a = ", ".join(self.val(x) for x in args)
        lines.append("%s((%s*)%s)(%s);" % (dst, ft, self.val(cv), a))
        return self.may_unwind(ins, None)

    def is_vtable_int_read(self, ins, p):
        """load i64 from bitcast(gep i8 (load i8* from bitcast(obj -> i8**)), negative const)"""
        ty = L.TypeOf(ins)
        if not self.is_int(ty) or self.width(ty) != 64:
            return False
        if L.GetValueKind(p) != L.VK_Instruction or L.GetInstructionOpcode(p) != L.OP["BitCast"]:
            return False
        g = L.GetOperand(p, 0)
        if L.GetValueKind(g) != L.VK_Instruction or L.GetInstructionOpcode(g) != L.OP["GetElementPtr"]:
            return False
        if L.GetNumOperands(g) != 2:
            return False
        idx = L.GetOperand(g, 1)
        if L.GetValueKind(idx) != L.VK_ConstantInt or L.ConstIntGetSExtValue(idx) >= 0:
            return False
        base = L.GetOperand(g, 0)
        bt = L.TypeOf(base)
        if not (self.is_ptr(bt) and self.is_int(L.GetElementType(bt)) and self.width(L.GetElementType(bt)) == 8):
            return False
        if L.GetValueKind(base) != L.VK_Instruction or L.GetInstructionOpcode(base) != L.OP["Load"]:
            return False
        src = L.GetOperand(base, 0)
        return L.GetValueKind(src) == L.VK_Instruction and L.GetInstructionOpcode(src) == L.OP["BitCast"]

    def virtual_slot(self, cv):
        """slot index if cv is  load(gep(load vptr, k))  or  load(load vptr)  (Itanium virtual call)"""
        if L.GetValueKind(cv) != L.VK_Instruction or L.GetInstructionOpcode(cv) != L.OP["Load"]:
            return None
        p = L.GetOperand(cv, 0)
        k = 0
        if L.GetValueKind(p) == L.VK_Instruction and L.GetInstructionOpcode(p) == L.OP["GetElementPtr"]:
            if L.GetNumOperands(p) != 2:
                return None
            idx = L.GetOperand(p, 1)
            if L.GetValueKind(idx) != L.VK_ConstantInt:
                return None
            k = L.ConstIntGetSExtValue(idx)
            p = L.GetOperand(p, 0)
        if L.GetValueKind(p) == L.VK_Instruction and L.GetInstructionOpcode(p) == L.OP["Load"]:
            if k < 0:
                return None
            return (k, p)
        return None

    def collect_vtables(self):
        """address points of every vtable global: (array operand list, index)"""
        if self.vt_aps is not None:
            return
        self.vt_aps = []
        for g in L.globals_(self.mod):
            nm = L.name_of(g)
            if not (nm.startswith("_ZTV") or nm.startswith("_ZTC")) or L.IsDeclaration(g):
                continue
            init = L.GetInitializer(g)
            if not init or L.GetValueKind(init) != L.VK_ConstantStruct:
                continue
            for arr_i, arr in enumerate(L.operands(init)):
                if L.GetValueKind(arr) != L.VK_ConstantArray:
                    continue
                elems = L.operands(arr)
                # Itanium layout: [vcall/vbase offsets..., offset-to-top, RTTI, functions...];
                # the address point follows the RTTI pointer: first index whose predecessor is a typeinfo (or null RTTI after an integer)
                ap = None
                for i, e in enumerate(elems):
                    b = self.strip_casts(e)
                    if L.GetValueKind(b) == L.VK_GlobalVariable and L.name_of(b).startswith("_ZTI"):
                        ap = i + 1
                        break
                if ap is None:
                    ap = 2 if len(elems) >= 2 else None
                if ap is not None:
                    self.vt_aps.append((elems, ap, g, arr_i))

    def vtable_candidates(self, slot, nargs, fty):
        self.collect_vtables()
        res = []
        for elems, ap, vg, arr_i in self.vt_aps:
            i = ap + slot
            if i >= len(elems):
                continue
            f = self.strip_casts(elems[i])
            if L.GetValueKind(f) != L.VK_Function:
                continue
            cfty = L.GetElementType(L.TypeOf(f))
            if L.CountParamTypes(cfty) != nargs:
                continue
            if L.GetTypeKind(L.GetReturnType(cfty)) != L.GetTypeKind(L.GetReturnType(fty)):
                continue
            res.append((f, vg, arr_i, ap))
        return res

    def special_call(self, ins, nm, args, dst, ty, lines):
        A = lambda i: self.val(args[i])
        if nm.startswith(SKIP_INTRINSICS):
            return False
        if nm.startswith("llvm.expect"):
            lines.append("%s%s;" % (dst, A(0)))
            return False
        if nm.startswith("llvm.memcpy") or nm.startswith("llvm.memmove") or nm.startswith("llvm.memset"):
            n = args[2]
            if L.GetValueKind(n) == L.VK_ConstantInt and L.ConstIntGetZExtValue(n) == 0:
                return False
            if self.watch:
                lines.append("verif_access((void*)%s, %s, 1);" % (A(0), A(2)))
                if not nm.startswith("llvm.memset"):
                    lines.append("verif_access((void*)%s, %s, 0);" % (A(1), A(2)))
            if nm.startswith("llvm.memset"):
                lines.append("verif_memset((void*)%s, %s, %s);" % (A(0), A(1), A(2)))
            elif nm.startswith("llvm.memcpy"):
                lines.append("verif_memcpy((void*)%s, (void*)%s, %s);" % (A(0), A(1), A(2)))
            else:
                lines.append("verif_memmove((void*)%s, (void*)%s, %s);" % (A(0), A(1), A(2)))
            return False
        if nm.startswith("llvm."):
            base = nm.split(".")[1]
            w = self.width(ty) if self.is_int(ty) else 0
            if base in ("umin", "umax", "smin", "smax"):
                a, b = A(0), A(1)
                if base[0] == "s":
                    ca, cb = self.sx(a, w), self.sx(b, w)
                else:
                    ca, cb = a, b
                c = "<" if base.endswith("min") else ">"
                lines.append("%s(%s %s %s ? %s : %s);" % (dst, ca, c, cb, a, b))
                return False
            if base == "abs":
                a = A(0)
                lines.append("%s%s;" % (dst, self.norm("(%s < 0 ? -(%s)%s : (%s)%s)" % (self.sx(a, w), self.U(w), a, self.U(w), a), ty)))
                return False
            if base == "bswap":
                lines.append("%sverif_bswap%d(%s);" % (dst, w, A(0)))
                return False
            if base in ("ctlz", "cttz", "ctpop"):
                lines.append("%s%s;" % (dst, self.norm("verif_%s((uint64_t)%s, %d)" % (base, A(0), w), ty)))
                return False
            if base in ("fshl", "fshr"):
                lines.append("%s%s;" % (dst, self.norm("verif_%s((uint64_t)%s,(uint64_t)%s,(uint64_t)%s,%d)" % (base, A(0), A(1), A(2), w), ty)))
                return False
            if base in ("uadd", "usub", "umul", "sadd", "ssub", "smul") and ".with.overflow" in nm:
                ety = L.StructGetTypeAtIndex(ty, 0)
                w = self.width(ety)
                if w > 64:
                    raise Unsupported(nm)
                res = self.local[ins]
                lines.append("%s.f1 = verif_%s_ov((uint64_t)%s,(uint64_t)%s,%d,&verif_tmp64); %s.f0 = (%s)verif_tmp64;" % (
                    res, base, A(0), A(1), w, res, self.ctype(ety)))
                return False
            if base in ("uadd", "usub") and ".sat" in nm:
                a, b = A(0), A(1)
                u = self.U(w)
                if base == "uadd":
                    e = "(%s)(%s + %s) < (%s)%s ? (%s)-1 : (%s)(%s + %s)" % (self.ctype(ty), a, b, self.ctype(ty), a, self.ctype(ty), self.ctype(ty), a, b)
                else:
                    e = "%s > %s ? (%s)(%s - %s) : 0" % (a, b, self.ctype(ty), a, b)
                lines.append("%s(%s);" % (dst, e))
                return False
            if base == "trap":
                lines.append("__CPROVER_assert(0, \"llvm.trap reached\"); __CPROVER_assume(0);")
                return False
            if base in ("fabs", "floor", "ceil", "trunc", "round", "sqrt", "rint", "nearbyint"):
                sfx = "f" if L.GetTypeKind(ty) == L.TK_Float else ""
                lines.append("%s__builtin_%s%s(%s);" % (dst, base, sfx, A(0)))
                return False
            if base == "is":  # llvm.is.constant
                lines.append("%s0;" % dst)
                return False
            if base == "objectsize":
                lines.append("%s%s;" % (dst, self.cint((1 << w) - 1, w)))
                return False
            if base == "eh" and "typeid.for" in nm:
                lines.append("%s%dU;" % (dst, self.ti_id(args[0])))
                return False
            if base == "fmuladd":
                lines.append("%s(%s * %s + %s);" % (dst, A(0), A(1), A(2)))
                return False
            raise Unsupported("intrinsic " + nm)
        if nm == "__CPROVER_assume":
            lines.append("__CPROVER_assume(%s);" % A(0))
            return False
        if nm == "verif_end":
            # end of the harness: locals are deliberately not destroyed (destructor paths are not the subject)
            lines.append("__CPROVER_assert(verif_exc == 0, \"no exception pending at the end of the harness\"); verif_end_native(); __CPROVER_assume(0);")
            return False
        if nm == "verif_assert":
            s = self.string_operand(args[1])
            if s is None:
                raise Unsupported("verif_assert with non-literal message")
            lines.append("__CPROVER_assert(%s, %s);" % (A(0), self.cstr(s)))
            return False
        if nm == "__cxa_throw":
            lines.append("verif_throw((void*)%s, %dU);" % (A(0), self.ti_id(args[1])))
            return True
        if nm == "__cxa_allocate_exception":
            lines.append("%s(%s)verif_alloc_exc(%s);" % (dst, self.ctype(ty), A(0)))
            return False
        if nm in ("_Znwm", "_Znam") and not self.is_defined_fn(L.GetNamedFunction(self.mod, nm.encode())):
            ety = self.alloc_elem_type(ins)
            if ety is not None:
                nconst = None
                if L.GetValueKind(args[0]) == L.VK_ConstantInt:
                    nconst = L.ConstIntGetZExtValue(args[0])
                k = self.typed_alloc(ety, nconst)
                lines.append("%s(%s)verif_new_%d(%s);" % (dst, self.ctype(ty), k, A(0)))
                return True  # only absurd sizes (> VERIF_HUGE_ALLOC) raise bad_alloc
            return None
        if nm == "__cxa_free_exception":
            return False
        if nm == "__cxa_begin_catch":
            lines.append("%s(%s)verif_begin_catch((void*)%s);" % (dst, self.ctype(ty), A(0)))
            return False
        if nm == "__cxa_end_catch":
            lines.append("verif_end_catch();")
            return False
        if nm == "__cxa_rethrow":
            lines.append("verif_rethrow();")
            return True
        if nm in ("__clang_call_terminate", "_ZSt9terminatev"):
            lines.append("__CPROVER_assert(0, \"std::terminate called\"); __CPROVER_assume(0);")
            return False
        return None

    # --------------------------------------------------------------- functions
    def dummy_ret(self, fn):
        rt = L.GetReturnType(L.GetElementType(L.TypeOf(fn)))
        if L.GetTypeKind(rt) == L.TK_Void:
            return "return;"
        return "return %s;" % self.zero(rt)

    def is_stack_ptr(self, p):
        # pointer derived (by gep/bitcast) from an alloca of this function
        for _ in range(8):
            if L.GetValueKind(p) in (L.VK_GlobalVariable, L.VK_Function):
                return True
            if L.GetValueKind(p) == L.VK_ConstantExpr:
                g = self.strip_casts(p)
                return L.GetValueKind(g) in (L.VK_GlobalVariable, L.VK_Function)
            if L.GetValueKind(p) != L.VK_Instruction:
                return False
            op = L.GetInstructionOpcode(p)
            if op == L.OP["Alloca"]:
                return True
            if op in (L.OP["GetElementPtr"], L.OP["BitCast"]):
                p = L.GetOperand(p, 0)
                continue
            return False
        return False

    def edge(self, frm, to):
        """phi copies for edge frm->to followed by goto"""
        phis = []
        for ins in L.instrs(to):
            if L.GetInstructionOpcode(ins) != L.OP["PHI"]:
                break
            for i in range(L.CountIncoming(ins)):
                if L.GetIncomingBlock(ins, i) == frm:
                    phis.append((ins, L.GetIncomingValue(ins, i)))
                    break
            else:
                raise Unsupported("phi without incoming for edge")
        s = ""
        if len(phis) == 1:
            s = "%s = %s; " % (self.local[phis[0][0]], self.val(phis[0][1]))
        elif phis:
            s = "{ "
            for j, (p, v) in enumerate(phis):
                s += "%s t%d = %s; " % (self.ctype(L.TypeOf(p)), j, self.val(v))
            for j, (p, v) in enumerate(phis):
                s += "%s = t%d; " % (self.local[p], j)
            s += "} "
        return s + "goto %s;" % self.label[to]

    def rpo(self, fn):
        """blocks in reverse post-order: only genuine loop back-edges become
        backward gotos (CBMC does not merge paths at backward jumps, so a
        forward CFG edge emitted as a backward goto multiplies paths)"""
        entry = L.GetEntryBasicBlock(fn)
        succs = {}

        def successors(bb):
            if bb not in succs:
                t = L.GetBasicBlockTerminator(bb)
                r = []
                if t:
                    for i in range(L.GetNumSuccessors(t)):
                        x = L.GetSuccessor(t, i)
                        if x not in r:
                            r.append(x)
                succs[bb] = r
            return succs[bb]
        post = []
        seen = {entry}
        stack = [(entry, 0)]
        while stack:
            bb, i = stack.pop()
            ss = successors(bb)
            if i < len(ss):
                stack.append((bb, i + 1))
                nb = ss[i]
                if nb not in seen:
                    seen.add(nb)
                    stack.append((nb, 0))
            else:
                post.append(bb)
        post.reverse()
        return post

    def function(self, fn):
        self.local = {}
        self.label = {}
        decls = []
        fty = L.GetElementType(L.TypeOf(fn))
        params = []
        for i in range(L.CountParams(fn)):
            p = L.GetParam(fn, i)
            self.local[p] = "a%d" % i
            params.append("%s a%d" % (self.ctype(L.TypeOf(p)), i))
        if L.IsFunctionVarArg(fty):
            params.append("...")
        rt = self.ctype(L.GetReturnType(fty))
        head = "%s %s(%s)" % (rt, self.cname(fn), ", ".join(params) if params else "void")
        n = 0
        entry = L.GetEntryBasicBlock(fn)
        order = self.rpo(fn)
        for bi, bb in enumerate(order):
            self.label[bb] = "L%d" % bi
            for ins in L.instrs(bb):
                ty = L.TypeOf(ins)
                if L.GetTypeKind(ty) != L.TK_Void:
                    self.local[ins] = "v%d" % n
                    decls.append("%s v%d;" % (self.ctype(ty), n))
                    n += 1
        body = []
        dummy = self.dummy_ret(fn)
        for bb in order:
            body.append("%s: ;" % self.label[bb])
            for ins in L.instrs(bb):
                self.stats["instructions"] += 1
                op = L.GetInstructionOpcode(ins)
                N = L.OPNAME.get(op, str(op))
                ty = L.TypeOf(ins)
                lines = []
                if N == "PHI":
                    continue
                elif N == "Alloca":
                    aty = L.GetAllocatedType(ins)
                    cnt = L.GetOperand(ins, 0)
                    if L.GetValueKind(cnt) != L.VK_ConstantInt:
                        raise Unsupported("dynamic alloca")
                    c = L.ConstIntGetZExtValue(cnt)
                    m = "m" + self.local[ins][1:]
                    if c == 1:
                        decls.append("%s %s;" % (self.ctype(aty), m))
                        lines.append("%s = &%s;" % (self.local[ins], m))
                    else:
                        decls.append("%s %s[%d];" % (self.ctype(aty), m, c))
                        lines.append("%s = &%s[0];" % (self.local[ins], m))
                elif N == "Load":
                    p = L.GetOperand(ins, 0)
                    if not self.is_stack_ptr(p):
                        lines.append("verif_chk((void*)%s, sizeof(*%s));" % (self.val(p), self.val(p)))
                    if self.watch and not self.is_stack_ptr(p):
                        lines.append("verif_access((void*)%s, sizeof(*%s), 0);" % (self.val(p), self.val(p)))
                    if self.is_vtable_int_read(ins, p):
                        # Itanium vbase-offset / offset-to-top read: the vtable slot is pointer typed in
                        # the mirrored C global; read it as a pointer and convert, so the constant folds
                        lines.append("%s = (%s)(uint64_t)*(uint8_t**)%s;" % (self.local[ins], self.ctype(ty), self.val(p)))
                    else:
                        lines.append("%s = %s;" % (self.local[ins], self.deref(p)))
                elif N == "Store":
                    p = L.GetOperand(ins, 1)
                    if not self.is_stack_ptr(p):
                        lines.append("verif_chk((void*)%s, sizeof(*%s));" % (self.val(p), self.val(p)))
                    if self.watch and not self.is_stack_ptr(p):
                        lines.append("verif_access((void*)%s, sizeof(*%s), 1);" % (self.val(p), self.val(p)))
                    lines.append("%s = %s;" % (self.deref(p), self.val(L.GetOperand(ins, 0))))
                elif N == "Ret":
                    if L.GetNumOperands(ins):
                        lines.append("return %s;" % self.val(L.GetOperand(ins, 0)))
                    else:
                        lines.append("return;")
                elif N == "Br":
                    if L.IsConditional(ins):
                        c = self.val(L.GetCondition(ins))
                        t = L.GetSuccessor(ins, 0)
                        f = L.GetSuccessor(ins, 1)
                        lines.append("if (%s) { %s } else { %s }" % (c, self.edge(bb, t), self.edge(bb, f)))
                    else:
                        lines.append(self.edge(bb, L.GetSuccessor(ins, 0)))
                elif N == "Switch":
                    ops = L.operands(ins)
                    cond = ops[0]
                    w = self.width(L.TypeOf(cond))
                    s = "switch ((%s)%s) { " % (self.U(w) if w <= 64 else "uint64_t", self.val(cond))
                    seen_cases = set()
                    for i in range(2, len(ops), 2):
                        cvn, _ = self.const_int_value(ops[i])
                        dest = L.ValueAsBasicBlock(ops[i + 1])
                        if cvn in seen_cases:
                            continue
                        seen_cases.add(cvn)
                        s += "case %s: { %s } " % (self.cint(cvn, max(w, 32)), self.edge(bb, dest))
                    s += "default: { %s } }" % self.edge(bb, L.GetSwitchDefaultDest(ins))
                    lines.append(s)
                elif N == "Unreachable":
                    lines.append("__CPROVER_assert(0, \"llvm unreachable executed\"); __CPROVER_assume(0); %s" % dummy)
                elif N == "Call":
                    mu = self.call(ins, lines)
                    if mu:
                        lines.append("if (verif_exc) %s" % dummy)
                elif N == "Invoke":
                    mu = self.call(ins, lines)
                    nd = L.GetNormalDest(ins)
                    ud = L.GetUnwindDest(ins)
                    if mu:
                        lines.append("if (verif_exc) { %s } else { %s }" % (self.edge(bb, ud), self.edge(bb, nd)))
                    else:
                        lines.append(self.edge(bb, nd))
                elif N == "LandingPad":
                    res = self.local[ins]
                    nc = L.GetNumClauses(ins)
                    s = "{ uint32_t t = verif_exc_type(verif_exc); uint32_t sel = 0; "
                    first = True
                    for i in range(nc):
                        cl = L.GetClause(ins, i)
                        if L.GetTypeKind(L.TypeOf(cl)) == L.TK_Array:
                            # exception-specification filter: thrown type must be one of the listed types,
                            # otherwise the (negative) filter selector is delivered
                            allowed = []
                            if L.GetValueKind(cl) == L.VK_ConstantArray:
                                allowed = [self.ti_id(o) for o in L.operands(cl)]
                            cond = " || ".join("verif_isa(t, %dU)" % a for a in allowed) or "0"
                            s += "%sif (!(%s)) sel = (uint32_t)-%d; " % ("" if first else "else ", cond, i + 1)
                            first = False
                            continue
                        cid = self.ti_id(cl)
                        if cid == 0:
                            break  # catch-all: selector irrelevant
                        s += "%sif (verif_isa(t, %dU)) sel = %dU; " % ("" if first else "else ", cid, cid)
                        first = False
                    s += "%s.f0 = (uint8_t*)verif_exc; %s.f1 = sel; verif_exc = 0; }" % (res, res)
                    lines.append(s)
                elif N == "Resume":
                    lines.append("verif_exc = (void*)%s.f0; %s" % (self.val(L.GetOperand(ins, 0)), dummy))
                elif N == "InsertValue":
                    idx = L.GetIndices(ins)
                    ni = L.GetNumIndices(ins)
                    res = self.local[ins]
                    agg = L.GetOperand(ins, 0)
                    if L.GetValueKind(agg) not in (L.VK_Undef, L.VK_Poison):
                        lines.append("%s = %s;" % (res, self.val(agg)))
                    lines.append("%s%s = %s;" % (res, self.agg_path(ty, [idx[i] for i in range(ni)]), self.val(L.GetOperand(ins, 1))))
                elif N == "AtomicRMW":
                    p = self.val(L.GetOperand(ins, 0))
                    x = self.val(L.GetOperand(ins, 1))
                    res = self.local[ins]
                    bop = L.RMW[L.GetAtomicRMWBinOp(ins)]
                    w = self.width(ty)
                    if self.watch:
                        lines.append("verif_access((void*)%s, sizeof(*%s), 1);" % (p, p))
                    lines.append("%s = *%s;" % (res, p))
                    u = self.U(w)
                    e = {"xchg": x, "add": "(%s)%s + (%s)%s" % (u, res, u, x), "sub": "(%s)%s - (%s)%s" % (u, res, u, x),
                         "and": "%s & %s" % (res, x), "or": "%s | %s" % (res, x), "xor": "%s ^ %s" % (res, x),
                         "umax": "(%s > %s ? %s : %s)" % (res, x, res, x), "umin": "(%s < %s ? %s : %s)" % (res, x, res, x)}.get(bop)
                    if e is None:
                        raise Unsupported("atomicrmw " + bop)
                    lines.append("*%s = %s;" % (p, self.norm(e, ty)))
                elif N == "AtomicCmpXchg":
                    p = self.val(L.GetOperand(ins, 0))
                    c = self.val(L.GetOperand(ins, 1))
                    nw = self.val(L.GetOperand(ins, 2))
                    res = self.local[ins]
                    if self.watch:
                        lines.append("verif_access((void*)%s, sizeof(*%s), 1);" % (p, p))
                    lines.append("%s.f0 = *%s; %s.f1 = (%s.f0 == %s); if (%s.f1) *%s = %s;" % (res, p, res, res, c, res, p, nw))
                elif N == "Fence":
                    pass
                elif N == "VAArg":
                    raise Unsupported("va_arg")
                else:
                    lines.append("%s = %s;" % (self.local[ins], self.expr(ins, op)))
                body.extend(lines)
        self.stats["functions"] += 1
        return head, decls, body

    # -------------------------------------------------------------------- main
    def translate(self):
        self.compute_reach()
        fbodies = []
        for fn in self.reach_fn:
            if not self.is_defined_fn(fn):
                continue
            try:
                if any(r.search(L.name_of(fn)) for r in self.noop):
                    raise Unsupported("NOOP")
                if any(r.search(L.name_of(fn)) for r in self.cut):
                    raise Unsupported("CUT")
                head, decls, body = self.function(fn)
            except Unsupported as e:
                msg = "ir2c-unsupported in %s: %s" % (L.name_of(fn), str(e))
                self.unsupported.append(msg)
                # body that fails visibly if ever reached
                self.local = {}
                fty = L.GetElementType(L.TypeOf(fn))
                params = ["%s a%d" % (self.ctype(L.TypeOf(L.GetParam(fn, i))), i) for i in range(L.CountParams(fn))]
                if L.IsFunctionVarArg(fty):
                    params.append("...")
                head = "%s %s(%s)" % (self.ctype(L.GetReturnType(fty)), self.cname(fn), ", ".join(params) if params else "void")
                decls = []
                if str(e) == "NOOP":
                    self.unsupported.pop()
                    self.nooped.append(L.name_of(fn))
                    body = [self.dummy_ret(fn)]
                elif str(e) == "CUT":
                    self.unsupported.pop()
                    self.cutted.append(L.name_of(fn))
                    body = ["__CPROVER_assert(0, \"allocation bound: cut function reached (unwinding assertion)\");",
                            "__CPROVER_assume(0);", self.dummy_ret(fn)]
                else:
                    body = ["__CPROVER_assert(0, %s);" % self.cstr(msg[:200]), "__CPROVER_assume(0);", self.dummy_ret(fn)]
            fbodies.append((fn, head, decls, body))
        # globals
        gdecl = []
        gdef = []
        for g in self.reach_gl:
            vty = L.GlobalGetValueType(g)
            nm = self.cname(g)
            if L.GetTypeKind(vty) == L.TK_Struct and L.IsOpaqueStruct(vty):
                # external opaque object: give it some storage
                gdecl.append("%s; uint8_t %s_storage[64]; /* opaque %s */" % (self.ctype(vty), nm, L.name_of(g)))
                gdecl.append("#define %s (*(%s*)%s_storage)" % (nm, self.ctype(vty), nm))
                continue
            ct = self.ctype(vty)
            gdecl.append("%s %s; /* %s */" % (ct, nm, L.name_of(g)))
            if not L.IsDeclaration(g):
                init = L.GetInitializer(g)
                if init and L.GetValueKind(init) != L.VK_ConstantAggregateZero and not L.IsNull(init):
                    try:
                        gdef.append("%s %s = %s;" % (ct, nm, self.init(init)))
                    except Unsupported as e:
                        self.unsupported.append("global %s: %s" % (L.name_of(g), e))
                        raise
        # prototypes
        protos = []
        for fn in self.reach_fn:
            if self.is_defined_fn(fn):
                fty = L.GetElementType(L.TypeOf(fn))
                params = [self.ctype(L.TypeOf(L.GetParam(fn, i))) for i in range(L.CountParams(fn))]
                if L.IsFunctionVarArg(fty):
                    params.append("...")
                protos.append("%s %s(%s); /* %s */" % (self.ctype(L.GetReturnType(fty)), self.cname(fn),
                                                      ", ".join(params) if params else "void", L.name_of(fn)))
        # externs discovered during body emission
        xprotos = []
        for f, nm in self.extern_used.items():
            xprotos.append(self.extern_proto(f) + " /* %s */" % nm)
        out = []
        out.append("/* generated by ir2c.py -- do not edit */")
        out.append("#include \"verif_rt.h\"")
        out.append("static uint64_t verif_tmp64;")
        out.extend(self.emit_types())
        out.extend(self.emit_isa())
        out.extend(self.emit_typed_allocs())
        out.extend(xprotos)
        out.extend(protos)
        out.extend(gdecl)
        out.extend(gdef)
        for fn, head, decls, body in fbodies:
            out.append("/* %s */" % L.name_of(fn))
            out.append(head)
            out.append("{")
            out.extend("  " + d for d in decls)
            out.extend("  " + b for b in body)
            out.append("}")
        for e in self.entries:
            f = L.GetNamedFunction(self.mod, e.encode())
            out.append("void verif_main_%s(void)" % san(e))
            out.append("{")
            for c in self.ctors:
                out.append("  %s();" % self.cname(c))
            out.append("  %s();" % self.cname(f))
            out.append("  __CPROVER_assert(verif_exc == 0, \"no exception escapes the harness entry\");")
            out.append("}")
        return "\n".join(out) + "\n"


def main():
    ap = argparse.ArgumentParser()
    ap.add_argument("ir")
    ap.add_argument("-o", "--out", required=True)
    ap.add_argument("--entry", action="append", required=True)
    ap.add_argument("--drop", action="append", default=[], help="treat this defined function as external (X_name)")
    ap.add_argument("--watch", action="store_true")
    ap.add_argument("--no-ctors", action="store_true")
    ap.add_argument("--root", action="append", default=[], help="additional function to translate (called only from C models)")
    ap.add_argument("--noop", action="append", default=[], help="regex: matching defined functions get an empty body (listed in info)")
    ap.add_argument("--cut", action="append", default=[], help="regex: matching functions become a bound assertion (paths through them are outside the bound; reaching one is reported like an unwinding assertion)")
    ap.add_argument("--info", help="write JSON with functions encoded / externs / unsupported")
    a = ap.parse_args()
    t = Translator(a.ir, a.entry, drop=a.drop, watch=a.watch, noop=a.noop)
    t.with_ctors = not a.no_ctors
    t.extra_roots = a.root
    t.cut = [re.compile(x) for x in a.cut]
    text = t.translate()
    with open(a.out, "w") as f:
        f.write(text)
    info = {
        "functions": [L.name_of(f) for f in t.reach_fn if t.is_defined_fn(f)],
        "externs": sorted(set(t.extern_used.values())),
        "unsupported": t.unsupported,
        "nooped": t.nooped,
        "cut": t.cutted,
        "instructions": t.stats["instructions"],
    }
    if a.info:
        with open(a.info, "w") as f:
            json.dump(info, f, indent=1)
    for u in t.unsupported:
        sys.stderr.write("ir2c: " + u + "\n")


if __name__ == "__main__":
    main()

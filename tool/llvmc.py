"""Minimal ctypes binding of the LLVM-C API (libLLVM-14) used by ir2c.py.

Only reading of a parsed module is needed: types, values, instructions,
constants, data layout.  Every function used is declared explicitly so a
missing symbol is an import-time error, not a silent mis-call.
"""
import ctypes as C
import os

_CANDIDATES = [
    "/usr/lib/llvm-14/lib/libLLVM-14.so",
    "/usr/lib/llvm-14/lib/libLLVM-14.so.1",
    "/usr/lib/x86_64-linux-gnu/libLLVM-14.so.1",
]
_lib = None
for _p in _CANDIDATES:
    if os.path.exists(_p):
        _lib = C.CDLL(_p)
        break
if _lib is None:
    raise ImportError("libLLVM-14.so not found")

P = C.c_void_p
U = C.c_uint
I = C.c_int
ULL = C.c_ulonglong
LL = C.c_longlong
S = C.c_char_p
SZ = C.c_size_t


def _f(name, res, *args):
    fn = getattr(_lib, name)
    fn.restype = res
    fn.argtypes = list(args)
    globals()[name[4:]] = fn  # strip 'LLVM'
    return fn


_f("LLVMContextCreate", P)
_f("LLVMCreateMemoryBufferWithContentsOfFile", I, S, C.POINTER(P), C.POINTER(S))
_f("LLVMParseIRInContext", I, P, P, C.POINTER(P), C.POINTER(S))
_f("LLVMGetModuleDataLayout", P, P)
_f("LLVMDisposeMessage", None, P)
_f("LLVMPrintValueToString", P, P)
_f("LLVMPrintTypeToString", P, P)

_f("LLVMGetFirstFunction", P, P)
_f("LLVMGetNextFunction", P, P)
_f("LLVMGetFirstGlobal", P, P)
_f("LLVMGetNextGlobal", P, P)
_f("LLVMGetFirstGlobalAlias", P, P)
_f("LLVMGetNextGlobalAlias", P, P)
_f("LLVMAliasGetAliasee", P, P)
_f("LLVMGetNamedFunction", P, P, S)
_f("LLVMGetNamedGlobal", P, P, S)
_f("LLVMGetFirstBasicBlock", P, P)
_f("LLVMGetNextBasicBlock", P, P)
_f("LLVMGetFirstInstruction", P, P)
_f("LLVMGetNextInstruction", P, P)
_f("LLVMCountParams", U, P)
_f("LLVMGetParam", P, P, U)
_f("LLVMGetValueName2", C.POINTER(C.c_char), P, C.POINTER(SZ))
_f("LLVMTypeOf", P, P)
_f("LLVMGetValueKind", I, P)
_f("LLVMIsDeclaration", I, P)
_f("LLVMGetInitializer", P, P)
_f("LLVMIsGlobalConstant", I, P)
_f("LLVMGlobalGetValueType", P, P)
_f("LLVMGetLinkage", I, P)
_f("LLVMIsThreadLocal", I, P)

_f("LLVMGetTypeKind", I, P)
_f("LLVMGetIntTypeWidth", U, P)
_f("LLVMGetElementType", P, P)
_f("LLVMGetArrayLength", U, P)
_f("LLVMGetVectorSize", U, P)
_f("LLVMCountStructElementTypes", U, P)
_f("LLVMStructGetTypeAtIndex", P, P, U)
_f("LLVMGetStructName", S, P)
_f("LLVMIsPackedStruct", I, P)
_f("LLVMIsOpaqueStruct", I, P)
_f("LLVMIsLiteralStruct", I, P)
_f("LLVMGetReturnType", P, P)
_f("LLVMCountParamTypes", U, P)
_f("LLVMGetParamTypes", None, P, C.POINTER(P))
_f("LLVMIsFunctionVarArg", I, P)
_f("LLVMTypeIsSized", I, P)

_f("LLVMGetInstructionOpcode", I, P)
_f("LLVMGetNumOperands", I, P)
_f("LLVMGetOperand", P, P, U)
_f("LLVMGetICmpPredicate", I, P)
_f("LLVMGetFCmpPredicate", I, P)
_f("LLVMCountIncoming", U, P)
_f("LLVMGetIncomingValue", P, P, U)
_f("LLVMGetIncomingBlock", P, P, U)
_f("LLVMGetNumSuccessors", U, P)
_f("LLVMGetSuccessor", P, P, U)
_f("LLVMIsConditional", I, P)
_f("LLVMGetCondition", P, P)
_f("LLVMGetSwitchDefaultDest", P, P)
_f("LLVMGetAllocatedType", P, P)
_f("LLVMGetNumIndices", U, P)
_f("LLVMGetIndices", C.POINTER(U), P)
_f("LLVMGetCalledValue", P, P)
_f("LLVMGetNumArgOperands", U, P)
_f("LLVMGetCalledFunctionType", P, P)
_f("LLVMGetNormalDest", P, P)
_f("LLVMGetUnwindDest", P, P)
_f("LLVMGetNumClauses", U, P)
_f("LLVMGetClause", P, P, U)
_f("LLVMIsCleanup", I, P)
_f("LLVMGetAtomicRMWBinOp", I, P)
_f("LLVMBasicBlockAsValue", P, P)
_f("LLVMValueAsBasicBlock", P, P)
_f("LLVMGetInstructionParent", P, P)
_f("LLVMGetBasicBlockParent", P, P)
_f("LLVMGetBasicBlockTerminator", P, P)
_f("LLVMGetEntryBasicBlock", P, P)
_f("LLVMGetVolatile", I, P)

_f("LLVMConstIntGetZExtValue", ULL, P)
_f("LLVMConstIntGetSExtValue", LL, P)
_f("LLVMConstRealGetDouble", C.c_double, P, C.POINTER(I))
_f("LLVMGetConstOpcode", I, P)
_f("LLVMIsConstantString", I, P)
_f("LLVMGetAsString", C.POINTER(C.c_char), P, C.POINTER(SZ))
_f("LLVMGetElementAsConstant", P, P, U)
_f("LLVMIsNull", I, P)

_f("LLVMABISizeOfType", ULL, P, P)
_f("LLVMStoreSizeOfType", ULL, P, P)
_f("LLVMSizeOfTypeInBits", ULL, P, P)
_f("LLVMOffsetOfElement", ULL, P, P, U)
_f("LLVMABIAlignmentOfType", U, P, P)

_f("LLVMGetEnumAttributeKindForName", U, S, SZ)
_f("LLVMGetEnumAttributeAtIndex", P, P, U, U)
_f("LLVMGetCallSiteEnumAttribute", P, P, U, U)
_f("LLVMGetIntrinsicID", U, P)

# ---- enums ---------------------------------------------------------------
(TK_Void, TK_Half, TK_Float, TK_Double, TK_X86_FP80, TK_FP128, TK_PPC_FP128,
 TK_Label, TK_Integer, TK_Function, TK_Struct, TK_Array, TK_Pointer, TK_Vector,
 TK_Metadata, TK_X86_MMX, TK_Token, TK_ScalableVector, TK_BFloat,
 TK_X86_AMX) = range(20)

(VK_Argument, VK_BasicBlock, VK_MemoryUse, VK_MemoryDef, VK_MemoryPhi,
 VK_Function, VK_GlobalAlias, VK_GlobalIFunc, VK_GlobalVariable,
 VK_BlockAddress, VK_ConstantExpr, VK_ConstantArray, VK_ConstantStruct,
 VK_ConstantVector, VK_Undef, VK_ConstantAggregateZero, VK_ConstantDataArray,
 VK_ConstantDataVector, VK_ConstantInt, VK_ConstantFP, VK_ConstantPointerNull,
 VK_ConstantTokenNone, VK_MetadataAsValue, VK_InlineAsm, VK_Instruction,
 VK_Poison) = range(26)

OP = dict(Ret=1, Br=2, Switch=3, IndirectBr=4, Invoke=5, Unreachable=7,
          CallBr=67, FNeg=66, Add=8, FAdd=9, Sub=10, FSub=11, Mul=12, FMul=13,
          UDiv=14, SDiv=15, FDiv=16, URem=17, SRem=18, FRem=19, Shl=20,
          LShr=21, AShr=22, And=23, Or=24, Xor=25, Alloca=26, Load=27,
          Store=28, GetElementPtr=29, Trunc=30, ZExt=31, SExt=32, FPToUI=33,
          FPToSI=34, UIToFP=35, SIToFP=36, FPTrunc=37, FPExt=38, PtrToInt=39,
          IntToPtr=40, BitCast=41, AddrSpaceCast=60, ICmp=42, FCmp=43, PHI=44,
          Call=45, Select=46, VAArg=49, ExtractElement=50, InsertElement=51,
          ShuffleVector=52, ExtractValue=53, InsertValue=54, Freeze=68,
          Fence=55, AtomicCmpXchg=56, AtomicRMW=57, Resume=58, LandingPad=59)
OPNAME = {v: k for k, v in OP.items()}

ICMP = {32: "eq", 33: "ne", 34: "ugt", 35: "uge", 36: "ult", 37: "ule",
        38: "sgt", 39: "sge", 40: "slt", 41: "sle"}
FCMP = {0: "false", 1: "oeq", 2: "ogt", 3: "oge", 4: "olt", 5: "ole", 6: "one",
        7: "ord", 8: "uno", 9: "ueq", 10: "ugt", 11: "uge", 12: "ult",
        13: "ule", 14: "une", 15: "true"}
RMW = {0: "xchg", 1: "add", 2: "sub", 3: "and", 4: "nand", 5: "or", 6: "xor",
       7: "max", 8: "min", 9: "umax", 10: "umin"}


def name_of(v):
    n = SZ(0)
    p = GetValueName2(v, C.byref(n))
    return C.string_at(p, n.value).decode("utf-8", "replace")


def to_str(v):
    p = PrintValueToString(v)
    s = C.string_at(p).decode("utf-8", "replace")
    DisposeMessage(p)
    return s


def type_str(t):
    p = PrintTypeToString(t)
    s = C.string_at(p).decode("utf-8", "replace")
    DisposeMessage(p)
    return s


def parse_ir(path):
    ctx = ContextCreate()
    buf = P()
    msg = S()
    if CreateMemoryBufferWithContentsOfFile(path.encode(), C.byref(buf), C.byref(msg)):
        raise IOError(msg.value.decode())
    mod = P()
    if ParseIRInContext(ctx, buf, C.byref(mod), C.byref(msg)):
        raise ValueError("IR parse error: " + msg.value.decode())
    return ctx, mod


def functions(mod):
    f = GetFirstFunction(mod)
    while f:
        yield f
        f = GetNextFunction(f)


def globals_(mod):
    g = GetFirstGlobal(mod)
    while g:
        yield g
        g = GetNextGlobal(g)


def aliases(mod):
    g = GetFirstGlobalAlias(mod)
    while g:
        yield g
        g = GetNextGlobalAlias(g)


def blocks(fn):
    b = GetFirstBasicBlock(fn)
    while b:
        yield b
        b = GetNextBasicBlock(b)


def instrs(bb):
    i = GetFirstInstruction(bb)
    while i:
        yield i
        i = GetNextInstruction(i)


def operands(v):
    return [GetOperand(v, i) for i in range(GetNumOperands(v))]


def param_types(fty):
    n = CountParamTypes(fty)
    arr = (P * n)()
    if n:
        GetParamTypes(fty, arr)
    return [arr[i] for i in range(n)]


def const_string(v):
    n = SZ(0)
    p = GetAsString(v, C.byref(n))
    return C.string_at(p, n.value)


_attr_cache = {}


def attr_kind(name):
    if name not in _attr_cache:
        _attr_cache[name] = GetEnumAttributeKindForName(name.encode(), len(name))
    return _attr_cache[name]


def fn_has_attr(fn, name):
    return bool(GetEnumAttributeAtIndex(fn, 0xFFFFFFFF, attr_kind(name)))


def call_has_attr(call, idx, name):
    # idx: 0xFFFFFFFF function, 0 return, 1.. params
    return bool(GetCallSiteEnumAttribute(call, idx, attr_kind(name)))

#!/usr/bin/env python3
"""Driver: decide one property by bounded symbolic checking of the real code.

  check.py Cxx [--tier quick|thorough] [--only OBL] [--keep] [--jobs N]
  check.py --replay FILE

Pipeline per obligation (DESIGN.md section 2):
  harness.cpp (#includes the real /repo unit) --clang++-14 -O1 -emit-llvm--> IR
  --ir2c.py--> C --cbmc--> verdict over all inputs inside the stated bound;
  a counterexample is replayed against the same harness built natively with
  g++ -fsanitize=address; the translator is validated on concrete vectors on
  every run (generated C built by gcc vs. the native harness).
Exit: 0 held / 1 violation (VIOLATION line) / 2 inconclusive or machinery error.
"""
import sys, os, re, json, time, subprocess, shutil, hashlib, argparse, random, resource, signal
from concurrent.futures import ThreadPoolExecutor

ROOT = os.path.dirname(os.path.dirname(os.path.abspath(__file__)))
sys.path.insert(0, os.path.join(ROOT, "tool"))
import obligations as OB

REPO = os.environ.get("VERIF_REPO", "/repo")
INC = ["-I%s/booster" % REPO, "-I%s/src" % REPO, "-I%s/private" % REPO, "-I%s/cppcms_boost" % REPO]
if os.path.exists(os.path.join(REPO, "_build/cppcms/config.h")):
    INC += ["-I%s/_build" % REPO, "-I%s/_build/booster" % REPO]
else:
    INC += ["-I%s/config" % ROOT, "-I%s/config/booster" % ROOT]
INC += ["-I%s" % REPO, "-I%s/harness" % ROOT, "-I%s/models" % ROOT]
DEFS = ["-DNDEBUG", "-DCPPCMS_BOOST_ALL_NO_LIB", "-Dcppcms_EXPORTS", "-DCPPCMS_VERIF"]
CLANG_FLAGS = ["-std=c++11", "-O1", "-fno-vectorize", "-fno-slp-vectorize", "-fno-unroll-loops",
               "-fno-strict-aliasing", "-fno-builtin", "-fno-PIE", "-fno-PIC", "-fno-access-control", "-Wno-everything", "-S", "-emit-llvm"]
CBMC_BASE = ["--unwinding-assertions", "--no-malloc-may-fail", "--drop-unused-functions",
             "--object-bits", "12", "--slice-formula"]
# exception-object construction is never the subject: backtrace capture is skipped (DESIGN 2.2)
DEFAULT_NOOP = ["^_ZN7booster9backtraceC[12]Em$"]
MEM_LIMIT_KB = 9 * 1024 * 1024          # per solver instance while several run in parallel
MEM_LIMIT_RETRY_KB = 40 * 1024 * 1024   # an instance that ran out of memory is retried alone with this limit


class Inconclusive(Exception):
    pass


def run(cmd, timeout=None, cwd=None, stdin=None, limit_mem=False, env=None):
    def pre():
        os.setsid()
        if limit_mem:
            if limit_mem == "retry": lim = MEM_LIMIT_RETRY_KB * 1024
            elif limit_mem is True: lim = MEM_LIMIT_KB * 1024
            else: lim = int(limit_mem) * 1024 * 1024 * 1024      # per-obligation "mem_gb"
            resource.setrlimit(resource.RLIMIT_AS, (lim, lim))
    t0 = time.time()
    p = subprocess.Popen(cmd, stdout=subprocess.PIPE, stderr=subprocess.STDOUT, cwd=cwd, env=env,
                         stdin=subprocess.PIPE if stdin is not None else subprocess.DEVNULL, preexec_fn=pre)
    try:
        out, _ = p.communicate(stdin.encode() if stdin is not None else None, timeout=timeout)
        to = False
    except subprocess.TimeoutExpired:
        try:
            os.killpg(p.pid, signal.SIGKILL)
        except Exception:
            pass
        out, _ = p.communicate()
        to = True
    return p.returncode, out.decode("utf-8", "replace"), time.time() - t0, to


os.environ.setdefault("ASAN_OPTIONS", "detect_leaks=0")


class Ctx:
    def __init__(self, prop, tier, scratch, jobs, keep):
        self.prop, self.tier, self.scratch, self.jobs, self.keep = prop, tier, scratch, jobs, keep
        self.ll_cache = {}
        self.native_cache = {}
        self.seed = int(os.environ.get("VERIF_SEED", "0") or 0)


def defs_args(defs):
    return ["-D%s=%s" % (k, v) for k, v in sorted(defs.items())]


def compile_ir(ctx, ob, tcfg):
    defs = dict(tcfg.get("defs", {}))
    key = (ob["harness"], tuple(sorted(defs.items())), tuple(ob.get("clang_flags", [])))
    if key in ctx.ll_cache:
        return ctx.ll_cache[key]
    tag = hashlib.sha1(repr(key).encode()).hexdigest()[:10]
    src = os.path.join(ROOT, "harness", ob["harness"])
    ll = os.path.join(ctx.scratch, "%s.%s.ll" % (ob["harness"].replace(".cpp", ""), tag))
    cmd = ["clang++-14"] + CLANG_FLAGS + ob.get("clang_flags", []) + DEFS + defs_args(defs) + INC + [src, "-o", ll]
    rc, out, dt, to = run(cmd, timeout=600)
    if rc != 0:
        raise Inconclusive("clang failed for %s:\n%s" % (ob["harness"], out[-3000:]))
    ctx.ll_cache[key] = ll
    return ll


import threading
_BUILD_LOCK = threading.Lock()


def build_native(ctx, ob, tcfg):
    """native replay binary: the same harness against the real code, ASan (serialised: instances share it)"""
    with _BUILD_LOCK:
        return _build_native(ctx, ob, tcfg)


def _build_native(ctx, ob, tcfg):
    defs = dict(tcfg.get("defs", {}))
    key = (ob["harness"], ob["entry"], tuple(sorted(defs.items())))
    if key in ctx.native_cache:
        return ctx.native_cache[key]
    tag = hashlib.sha1(repr(key).encode()).hexdigest()[:10]
    exe = os.path.join(ctx.scratch, "native.%s.%s" % (ob["entry"], tag))
    src = os.path.join(ROOT, "harness", ob["harness"])
    libs = []
    if ob.get("native_link", True):
        bdir = os.path.join(REPO, "_build")
        libs = ["-L" + bdir, "-L" + bdir + "/booster", "-lcppcms", "-lbooster",
                "-Wl,-rpath," + bdir, "-Wl,-rpath," + bdir + "/booster"]
    cmd = (["g++", "-std=c++11", "-O1", "-g", "-fsanitize=address", "-fno-omit-frame-pointer", "-fno-access-control", "-w",
            "-DVERIF_NATIVE", "-DVERIF_ENTRY=" + ob["entry"]] + DEFS + defs_args(defs) + INC +
           [src, os.path.join(ROOT, "harness", "verif_native.cpp"), "-o", exe] + libs + ["-lpthread", "-ldl", "-lz", "-lcrypto", "-lpcre"])
    rc, out, dt, to = run(cmd, timeout=900)
    if rc != 0:
        raise Inconclusive("native build failed for %s:\n%s" % (ob["entry"], out[-3000:]))
    ctx.native_cache[key] = exe
    return exe


PROP_RE = re.compile(r"^\[([^\]]+)\] (?:line (\d+) )?(.*): (SUCCESS|FAILURE|UNKNOWN)$")


def parse_cbmc(out):
    props = []
    for line in out.splitlines():
        m = PROP_RE.match(line.strip())
        if m:
            props.append(dict(id=m.group(1), line=m.group(2), desc=m.group(3), status=m.group(4)))
    info = {}
    m = re.search(r"(\d+) variables, (\d+) clauses", out)
    if m:
        info["sat_variables"], info["sat_clauses"] = int(m.group(1)), int(m.group(2))
    sv = re.findall(r"Runtime Solver: ([0-9.e+-]+)s", out)
    info["solver_s"] = round(sum(float(x) for x in sv), 3)
    m = re.search(r"Runtime Symex: ([0-9.e+-]+)s", out)
    if m:
        info["symex_s"] = float(m.group(1))
    m = re.search(r"Generated (\d+) VCC\(s\), (\d+) remaining", out)
    if m:
        info["vccs"], info["vccs_remaining"] = int(m.group(1)), int(m.group(2))
    m = re.search(r"size of program expression: (\d+) steps", out)
    if m:
        info["program_steps"] = int(m.group(1))
    info["nobody"] = re.findall(r"no body for (?:function|callee) (\S+)", out)
    return props, info


def extract_inputs(trace, prop_id=None):
    """ordered nondet_*() results from a CBMC text trace (assignments to verif_last_in); the value
    is taken from the binary rendering because CBMC prints some constants symbolically (sizeof...)"""
    if prop_id:
        parts = re.split(r"^Trace for (\S+):\s*$", trace, flags=re.M)
        # parts = [pre, id1, body1, id2, body2, ...]
        for i in range(1, len(parts) - 1, 2):
            if parts[i] == prop_id:
                trace = parts[i + 1]
                break
    vals = []
    for m in re.finditer(r"^\s*verif_last_in=.*\(([01 ]+)\)\s*$", trace, re.M):
        vals.append(int(m.group(1).replace(" ", ""), 2))
    return vals


def cbmc_cmd(ob, tcfg, cfile, entry, extra=(), params=()):
    cmd = ["cbmc", "-I", os.path.join(ROOT, "models"), cfile, os.path.join(ROOT, "models", "models.c")]
    for m in ob.get("models", []):
        cmd.append(os.path.join(ROOT, "models", m))
    for i, p in enumerate(params):
        cmd.append("-DVERIF_PARAM%d=%d" % (i, p))
    for d in ob.get("cbmc_defs", []):
        cmd.append("-D" + d)
    if "max_alloc" in tcfg or "max_alloc" in ob:
        cmd.append("-DVERIF_MAX_ALLOC=%d" % tcfg.get("max_alloc", ob.get("max_alloc")))
    if "big_alloc" in tcfg or "big_alloc" in ob:
        cmd.append("-DVERIF_BIG_ALLOC=%d" % tcfg.get("big_alloc", ob.get("big_alloc")))
    cmd += ["--function", "verif_main_" + entry] + CBMC_BASE
    uw = tcfg.get("unwind", 8)
    if isinstance(uw, str):
        uw = int(eval(uw, {}, {"p%d" % i: v for i, v in enumerate(params)}))
    cmd += ["--unwind", str(uw)]
    us = tcfg.get("unwindset", {})
    if us:
        env = {"p%d" % i: v for i, v in enumerate(params)}
        cmd += ["--unwindset", ",".join("%s:%d" % (k, (int(eval(v, {}, env)) if isinstance(v, str) else v)) for k, v in us.items())]
    cmd += tcfg.get("cbmc_flags", []) + ob.get("cbmc_flags", [])
    cmd += list(extra)
    return cmd


def instances(tcfg):
    """cartesian product of the concrete split parameters (lengths etc.)"""
    sp = tcfg.get("split", [])
    out = [()]
    for vals in sp:
        out = [o + (v,) for o in out for v in vals]
    return out


def gen_vectors(ctx, ob, n):
    """concrete input vectors for translator validation"""
    rnd = random.Random((ctx.seed * 1000003) ^ int(hashlib.sha1(ob["id"].encode()).hexdigest()[:8], 16))
    vecs = []
    for f in ob.get("vectors", []):
        vecs.append(list(f))
    pools = [[0, 1, 2, 3], [0, 1, 2, 3, 4, 5, 6, 7, 8], list(range(32, 127)), list(range(256)),
             [0, 1, 255, 128, 127, 0x80000000, 0xFFFFFFFF, 2 ** 63, 2 ** 64 - 1]]
    while len(vecs) < n:
        style = rnd.randrange(4)
        v = []
        for i in range(96):
            if style == 0:
                v.append(rnd.choice(pools[1]))
            elif style == 1:
                v.append(rnd.choice(rnd.choice(pools)))
            elif style == 2:
                v.append(rnd.choice(pools[0] if i < 4 else pools[2]))
            else:
                v.append(rnd.choice(pools[1] if i < 6 else pools[3]))
        vecs.append(v)
    return vecs


def outcome(rc, out):
    obs = [l for l in out.splitlines() if l.startswith("OBS ")]
    if "ASSUME-FAILED" in out:
        st = "assume"
    elif "ASSERTION-FAILED" in out:
        st = "assert:" + out.split("ASSERTION-FAILED", 1)[1].splitlines()[0].strip()
    elif "INPUT-EXHAUSTED" in out:
        st = "exhausted"
    elif "UNCAUGHT" in out or "terminate called" in out:
        st = "uncaught"
    elif "RETURNED" in out:
        st = "returned"
    elif "AddressSanitizer" in out:
        st = "asan"
    else:
        st = "crash rc=%s" % rc
    return st, obs


def build_concrete(ctx, ob, tcfg, cfile, entry):
    """generated C (translated real code + models) built natively by gcc"""
    exe_c = cfile[:-2] + ".concrete"
    with _BUILD_LOCK:
        if os.path.exists(exe_c):
            return exe_c
        cmd = ["gcc", "-O1", "-w", "-I", os.path.join(ROOT, "models"), "-DVERIF_MAIN=verif_main_" + entry, cfile,
               os.path.join(ROOT, "models", "models.c")] + [os.path.join(ROOT, "models", m) for m in ob.get("models", [])] + ["-o", exe_c, "-lm"]
        rc, out, dt, to = run(cmd, timeout=600)
        if rc != 0 and "undefined reference" in out:
            # functions that are referenced but never reached symbolically (CBMC reports an unmodelled *reachable*
            # callee as an error): give the concrete build aborting definitions so it links
            missing = sorted(set(re.findall(r"undefined reference to `([A-Za-z_0-9]+)'", out)))
            stub = exe_c + ".missing.c"
            with open(stub, "w") as f:
                f.write("#include <stdio.h>\n#include <stdlib.h>\n")
                for m in missing:
                    f.write("void %s(void) { printf(\"UNMODELLED-CALL %s\\n\"); exit(4); }\n" % (m, m))
            rc, out, dt, to = run(cmd + [stub], timeout=600)
        if rc != 0:
            raise Inconclusive("gcc build of generated C failed for %s:\n%s" % (ob["id"], out[-3000:]))
    return exe_c


def validate_translation(ctx, ob, tcfg, cfile, entry, nvec, insts):
    """generated C (gcc) vs native harness (g++, real code) on concrete vectors"""
    exe_n = build_native(ctx, ob, tcfg)
    exe_c = build_concrete(ctx, ob, tcfg, cfile, entry)
    agree = 0
    nontrivial = 0
    mism = []
    rnd = random.Random(ctx.seed + 17)
    for v in gen_vectors(ctx, ob, nvec):
        inp = "\n".join(str(x) for x in v) + "\n"
        par = rnd.choice(insts)
        env = dict(os.environ, VERIF_PARAMS=",".join(str(x) for x in par))
        rc1, o1, _, to1 = run([exe_n], timeout=20, stdin=inp, env=env)
        rc2, o2, _, to2 = run([exe_c], timeout=20, stdin=inp, env=env)
        a, b = outcome(rc1, o1), outcome(rc2, o2)
        if to1 or to2:
            continue
        if a == b:
            agree += 1
            if a[0] != "assume":
                nontrivial += 1
        else:
            mism.append(dict(params=list(par), inputs=v[:24], native=a, generated=b, native_out=o1[-400:]))
    return agree, nontrivial, mism


def prepare(ctx, ob):
    """compile the harness to IR and translate the obligation's entry to C"""
    tcfg = ob["tiers"].get(ctx.tier) or ob["tiers"]["quick"]
    res = dict(id=ob["id"], entry=ob["entry"], desc=ob.get("desc", ""), bounds=tcfg.get("bounds", ob.get("bounds", "")),
               status="?", tier_cfg={k: v for k, v in tcfg.items() if k in ("defs", "unwind", "unwindset", "split", "max_alloc")})
    t0 = time.time()
    try:
        ll = compile_ir(ctx, ob, tcfg)
        entry = ob["entry"]
        cfile = os.path.join(ctx.scratch, "%s.%s.c" % (ob["id"].replace("/", "_"), entry))
        info_f = cfile + ".json"
        cmd = ["python3", os.path.join(ROOT, "tool", "ir2c.py"), ll, "-o", cfile, "--entry", entry, "--info", info_f]
        for d in ob.get("drop", []):
            cmd += ["--drop", d]
        for d in DEFAULT_NOOP + ob.get("noop", []):
            cmd += ["--noop", d]
        for d in ob.get("cut", []):
            cmd += ["--cut", d]
        for d in ob.get("roots", []):
            cmd += ["--root", d]
        if ob.get("watch"):
            cmd.append("--watch")
        if not ob.get("ctors", True):
            cmd.append("--no-ctors")
        rc, out, dt, to = run(cmd, timeout=600)
        if rc != 0:
            raise Inconclusive("ir2c failed for %s:\n%s" % (ob["id"], out[-3000:]))
        info = json.load(open(info_f))
        res["functions_encoded"] = info["functions"]
        res["externs"] = info["externs"]
        res["nooped"] = info.get("nooped", [])
        res["cut"] = info.get("cut", [])
        res["ir_instructions"] = info["instructions"]
        if info["unsupported"]:
            res["ir2c_unsupported"] = info["unsupported"]
        res["cfile"] = cfile
    except Inconclusive as e:
        res["status"] = "INCONCLUSIVE"
        res["note"] = str(e)
    res["prep_s"] = round(time.time() - t0, 2)
    return res


def run_instance(ctx, ob, res, params, retry=False):
    """one CBMC run (one concrete choice of the split parameters)"""
    tcfg = ob["tiers"].get(ctx.tier) or ob["tiers"]["quick"]
    entry = ob["entry"]
    cfile = res["cfile"]
    r = dict(params=list(params), status="?")
    try:
        timeout = tcfg.get("timeout", 600)
        if os.environ.get("VERIF_TIMEOUT_CAP"):
            timeout = min(timeout, int(os.environ["VERIF_TIMEOUT_CAP"]))
        cmd = cbmc_cmd(ob, tcfg, cfile, entry, ["--verbosity", "8"], params=params)
        r["checker_cmd"] = " ".join(cmd).replace(ctx.scratch, "$SCRATCH")
        rc, out, dt, to = run(cmd, timeout=timeout, limit_mem=("retry" if retry else ob.get("mem_gb", True)))
        r["cbmc_wall_s"] = round(dt, 2)
        if not to and not retry and (rc in (-9, 6, 134) or "out of memory" in out.lower()) and "VERIFICATION SUCCESSFUL" not in out and "VERIFICATION FAILED" not in out:
            r["status"] = "RETRY-ALONE"
            return r
        if ctx.keep:
            open(cfile + ".%s.cbmc.log" % "_".join(str(p) for p in params), "w").write(out)
        if to:
            raise Inconclusive("cbmc timeout after %ds for %s %s" % (timeout, ob["id"], list(params)))
        props, cinfo = parse_cbmc(out)
        r.update(cinfo)
        if cinfo["nobody"]:
            raise Inconclusive("no body for %s in %s (missing model)" % (sorted(set(cinfo["nobody"])), ob["id"]))
        if not props or ("VERIFICATION SUCCESSFUL" not in out and "VERIFICATION FAILED" not in out):
            raise Inconclusive("cbmc gave no verdict for %s %s (rc=%s):\n%s" % (ob["id"], list(params), rc, out[-2500:]))
        r["properties"] = len(props)
        wit = [p for p in props if p["desc"].startswith("WITNESS")]
        bnd = [p for p in props if ("unwinding assertion" in p["desc"] or "allocation bound" in p["desc"]) and p["status"] != "SUCCESS"]
        unsup = [p for p in props if "ir2c-unsupported" in p["desc"] and p["status"] != "SUCCESS"]
        bad = [p for p in props if p["status"] != "SUCCESS" and not p["desc"].startswith("WITNESS")
               and p not in bnd and p not in unsup]
        r["witness_labels"] = sorted({p["desc"] for p in wit})
        r["witness_reached"] = sorted({p["desc"] for p in wit if p["status"] == "FAILURE"})
        if unsup:
            raise Inconclusive("reachable construct not supported by ir2c in %s: %s" % (ob["id"], unsup[0]["desc"]))
        # a violated property is reported (and replayed) even when a bound was also exceeded elsewhere:
        # the counterexample lies inside the explored part; without one, an exceeded bound is inconclusive
        if bnd and not bad:
            raise Inconclusive("bound too small in %s %s: %s" % (ob["id"], list(params), ", ".join(p["id"] + " " + p["desc"][:40] for p in bnd[:6])))
        if not r["witness_reached"] and not bad:
            raise Inconclusive("VACUOUS: no reachability witness reached in %s %s" % (ob["id"], list(params)))
        if bad:
            r["failed_properties"] = [dict(id=p["id"], desc=p["desc"], line=p["line"]) for p in bad[:10]]
            first = bad[0]
            # prefer a harness assertion over a generic memory check as the reported property
            for p in bad:
                if ".assertion." in p["id"] and not p["id"].startswith("verif_"):
                    first = p
                    break
            cmd2 = [x for x in cbmc_cmd(ob, tcfg, cfile, entry, ["--property", first["id"], "--trace"], params=params)
                    if x != "--slice-formula"]
            rc, tout, dt2, to = run(cmd2, timeout=timeout, limit_mem="retry")
            if to:
                raise Inconclusive("cbmc timeout while producing the trace for %s" % ob["id"])
            inputs = extract_inputs(tout, first["id"])
            if ob.get("replay") == "generated":
                # the obligation replaces library classes by a model, so the native build cannot show the
                # failure; the counterexample is replayed on the gcc build of the translated real code + model
                exe = build_concrete(ctx, ob, tcfg, cfile, entry)
            else:
                exe = build_native(ctx, ob, tcfg)
            env = dict(os.environ, VERIF_PARAMS=",".join(str(x) for x in params))
            rcn, nout, _, ton = run([exe], timeout=60, stdin="\n".join(str(x) for x in inputs) + "\n", env=env)
            st, obs = outcome(rcn, nout)
            r["counterexample"] = dict(property=first, inputs=inputs, params=list(params), native_outcome=st)
            reproduced = st.startswith("assert:") or st == "asan" or st == "uncaught" or st.startswith("crash")
            if reproduced:
                h = hashlib.sha1(json.dumps([ob["id"], list(params), inputs]).encode()).hexdigest()[:10]
                os.makedirs(os.path.join(ROOT, "replays"), exist_ok=True)
                rp = os.path.join(ROOT, "replays", "%s-%s.json" % (ob["id"], h))
                json.dump(dict(property=ctx.prop, obligation=ob["id"], entry=entry, harness=ob["harness"], tier=ctx.tier,
                               defs=tcfg.get("defs", {}), params=list(params), inputs=inputs, violated=first, native_outcome=st,
                               native_output_tail=nout[-1500:],
                               how_to_replay="bin/check --replay %s" % rp), open(rp, "w"), indent=1)
                r["status"] = "VIOLATION"
                r["replay"] = rp
            else:
                r["status"] = "ENCODING-MISMATCH"
                r["note"] = "solver counterexample did not reproduce natively (outcome %s, property %s, inputs %s): %s" % (
                    st, first["desc"], inputs[:40], nout[-600:])
        else:
            r["status"] = "PASS"
    except Inconclusive as e:
        r["status"] = "INCONCLUSIVE"
        r["note"] = str(e)
    return r


def aggregate(ctx, ob, res, irs):
    tcfg = ob["tiers"].get(ctx.tier) or ob["tiers"]["quick"]
    res["instances"] = len(irs)
    res["properties"] = sum(r.get("properties", 0) for r in irs)
    res["solver_s"] = round(sum(r.get("solver_s", 0) or 0 for r in irs), 3)
    res["symex_s"] = round(sum(r.get("symex_s", 0) or 0 for r in irs), 3)
    res["cbmc_wall_s"] = round(sum(r.get("cbmc_wall_s", 0) or 0 for r in irs), 2)
    res["sat_variables"] = max([r.get("sat_variables", 0) or 0 for r in irs] + [0])
    res["sat_clauses"] = max([r.get("sat_clauses", 0) or 0 for r in irs] + [0])
    res["checker_cmd"] = irs[0].get("checker_cmd", "") if irs else ""
    labels = sorted({l for r in irs for l in r.get("witness_labels", [])})
    reached = sorted({l for r in irs for l in r.get("witness_reached", [])})
    res["witnesses"] = len(labels)
    res["witnesses_reached"] = len(reached)
    order = ["VIOLATION", "ENCODING-MISMATCH", "INCONCLUSIVE"]
    for st in order:
        hit = [r for r in irs if r["status"] == st]
        if hit:
            res["status"] = st
            res["note"] = hit[0].get("note", "")
            if st == "VIOLATION":
                res["counterexample"] = hit[0]["counterexample"]
                res["replay"] = hit[0]["replay"]
                res["failed_properties"] = hit[0].get("failed_properties")
                res["all_violating_instances"] = [r["params"] for r in hit]
            return res
    missing = [l for l in labels if l not in reached]
    if missing:
        res["status"] = "INCONCLUSIVE"
        res["note"] = "VACUOUS: witness never reached in any instance: %s" % missing
        return res
    res["status"] = "PASS"
    return res


def known_findings():
    path = os.path.join(ROOT, "known_findings.txt")
    out = []
    if os.path.exists(path):
        for line in open(path):
            line = line.strip()
            if line.startswith("finding:"):
                m = re.match(r"finding:\s+property=(\S+)\s+id=(\S+)\s+(.*)", line)
                if m:
                    out.append(dict(prop=m.group(1), id=m.group(2), text=m.group(3)))
    return out


def main():
    ap = argparse.ArgumentParser()
    ap.add_argument("prop", nargs="?")
    ap.add_argument("--tier", default=os.environ.get("VERIF_TIER", "quick"))
    ap.add_argument("--only")
    ap.add_argument("--keep", action="store_true")
    ap.add_argument("--jobs", type=int, default=int(os.environ.get("VERIF_JOBS", "0") or 0))
    ap.add_argument("--replay")
    ap.add_argument("--no-evidence", action="store_true")
    a = ap.parse_args()
    if a.tier not in ("quick", "thorough"):
        a.tier = "quick"
    scratch = os.environ.get("VERIF_SCRATCH") or "/var/tmp/verif-%d" % os.getpid()
    os.makedirs(scratch, exist_ok=True)
    try:
        if a.replay:
            return do_replay(a, scratch)
        return do_check(a, scratch)
    finally:
        if not a.keep:
            shutil.rmtree(scratch, ignore_errors=True)


def do_replay(a, scratch):
    r = json.load(open(a.replay))
    prop = r["property"]
    ob = [o for o in OB.PROPS[prop]["obligations"] if o["id"] == r["obligation"]][0]
    ctx = Ctx(prop, r.get("tier", "quick"), scratch, 1, a.keep)
    tcfg = dict(ob["tiers"].get(ctx.tier) or ob["tiers"]["quick"])
    tcfg["defs"] = r.get("defs", {})
    if ob.get("replay") == "generated":
        res = prepare(ctx, ob)
        if res["status"] != "?":
            print(res.get("note", ""))
            return 2
        exe = build_concrete(ctx, ob, tcfg, res["cfile"], ob["entry"])
    else:
        exe = build_native(ctx, ob, tcfg)
    env = dict(os.environ, VERIF_PARAMS=",".join(str(x) for x in r.get("params", [])))
    rc, out, _, _ = run([exe], timeout=60, stdin="\n".join(str(x) for x in r["inputs"]) + "\n", env=env)
    st, obs = outcome(rc, out)
    print(out[-3000:])
    print("replay outcome:", st)
    if st.startswith("assert:") or st in ("asan", "uncaught") or st.startswith("crash"):
        print("VIOLATION property=%s replay=%s" % (prop, a.replay))
        return 1
    return 0


def do_check(a, scratch):
    prop = a.prop
    if prop not in OB.PROPS:
        print("unknown property", prop)
        return 2
    P = OB.PROPS[prop]
    obs = [o for o in P["obligations"] if a.tier in o["tiers"] or ("quick" in o["tiers"] and not o.get("thorough_only"))]
    if a.tier == "quick":
        obs = [o for o in P["obligations"] if "quick" in o["tiers"]]
    else:
        obs = [o for o in P["obligations"]]
    if a.only:
        obs = [o for o in obs if o["id"] == a.only or o["entry"] == a.only]
    jobs = a.jobs or min(6, os.cpu_count() or 4)
    ctx = Ctx(prop, a.tier, scratch, jobs, a.keep)
    t0 = time.time()
    results = []
    with ThreadPoolExecutor(max_workers=jobs) as ex:
        preps = list(ex.map(lambda o: prepare(ctx, o), obs))
        futs = []
        for ob, res in zip(obs, preps):
            if res["status"] != "?":
                futs.append((ob, res, []))
                continue
            tcfg = ob["tiers"].get(ctx.tier) or ob["tiers"]["quick"]
            fl = [ex.submit(run_instance, ctx, ob, res, par) for par in instances(tcfg)]
            futs.append((ob, res, fl))
        pending = []
        for ob, res, fl in futs:
            irs = [f.result() for f in fl] if res["status"] == "?" else []
            pending.append((ob, res, irs))
        # instances that ran out of memory next to others are repeated one at a time with a larger limit
        for ob, res, irs in pending:
            tcfg = ob["tiers"].get(ctx.tier) or ob["tiers"]["quick"]
            for i, r in enumerate(irs):
                if r["status"] == "RETRY-ALONE":
                    irs[i] = run_instance(ctx, ob, res, tuple(r["params"]), retry=True)
                    irs[i]["retried_alone"] = True
        for ob, res, irs in pending:
            if res["status"] == "?":
                aggregate(ctx, ob, res, irs)
            results.append(res)
        # translator validation on concrete vectors (only meaningful when the solver run passed)
        def val(pair):
            ob, res = pair
            tcfg = ob["tiers"].get(ctx.tier) or ob["tiers"]["quick"]
            nvec = tcfg.get("nvec", ob.get("nvec", 12))
            if not nvec or res["status"] != "PASS":
                return
            try:
                agree, nontriv, mism = validate_translation(ctx, ob, tcfg, res["cfile"], ob["entry"], nvec, instances(tcfg))
                res["validation_vectors_agree"] = agree
                res["validation_vectors_nontrivial"] = nontriv
                if mism:
                    res["status"] = "ENCODING-MISMATCH"
                    res["note"] = "generated C and native harness disagree on concrete vector: %s" % json.dumps(mism[0])[:1500]
            except Inconclusive as e:
                res["status"] = "INCONCLUSIVE"
                res["note"] = str(e)
        list(ex.map(val, list(zip(obs, results))))
    for r in results:
        r["wall_s"] = round(r.get("prep_s", 0) + r.get("cbmc_wall_s", 0), 2)
    wall = time.time() - t0
    kf = [k for k in known_findings() if k["prop"] == prop]
    violations = 0
    incon = 0
    rc = 0
    for r in results:
        line = "[%s] %-12s props=%s witnesses=%s/%s solver=%ss wall=%ss  %s" % (
            r["id"], r["status"], r.get("properties", "-"), r.get("witnesses_reached", "-"), r.get("witnesses", "-"),
            r.get("solver_s", "-"), r["wall_s"], r.get("bounds", ""))
        print(line)
        if r["status"] == "VIOLATION":
            fp = r["counterexample"]["property"]["desc"]
            matched = [k for k in kf if k["id"].split("/")[0] == r["id"] and k["id"].split("/", 1)[1] in fp]
            if matched:
                print("KNOWN-FINDING: property=%s %s" % (prop, matched[0]["text"]))
                r["status"] = "KNOWN-FINDING"
            else:
                violations += 1
                print("  violated: %s" % fp)
                print("  inputs: %s" % r["counterexample"]["inputs"][:40])
                print("VIOLATION property=%s replay=%s" % (prop, r["replay"]))
        elif r["status"] != "PASS":
            incon += 1
            print("  " + r.get("note", "")[:3000].replace("\n", "\n  "))
    if violations:
        rc = 1
    elif incon:
        rc = 2
    if not a.no_evidence and not a.only:
        write_evidence(prop, P, a.tier, ctx.seed, results, wall, violations)
    print("%s %s: %d obligations, %d pass, %d violations, %d inconclusive, wall %.1fs" % (
        prop, a.tier, len(results), len([r for r in results if r["status"] == "PASS"]), violations, incon, wall))
    return rc


def write_evidence(prop, P, tier, seed, results, wall, violations):
    os.makedirs(os.path.join(ROOT, "evidence"), exist_ok=True)
    passed = [r for r in results if r["status"] in ("PASS", "KNOWN-FINDING")]
    funcs = sorted({f for r in results for f in r.get("functions_encoded", [])})
    externs = sorted({f for r in results for f in r.get("externs", [])})
    nprops = sum(r.get("properties", 0) for r in results)
    wit = sum(r.get("witnesses_reached", 0) for r in results)
    cov = dict(
        evaluations=nprops,
        distinct_nontrivial=len([r for r in passed if r.get("witnesses_reached", 0) > 0]),
        rule=("one evaluation = one CBMC property (assertion, memory-safety or unwinding check) decided by the SAT back end "
              "for all inputs inside the obligation's bound; an obligation counts as non-trivial only when its reachability "
              "witness(es) came back FAILED (assertions reachable, assumptions satisfiable) and every other property SUCCESS"),
        samples=[dict(obligation=r["id"], entry=r["entry"], what=r["desc"], bounds=r.get("bounds", ""), status=r["status"],
                      tier_cfg=r.get("tier_cfg"), solver_instances=r.get("instances"), cbmc_properties=r.get("properties"), witnesses_reached=r.get("witnesses_reached"),
                      sat_variables=r.get("sat_variables"), sat_clauses=r.get("sat_clauses"), solver_s=r.get("solver_s"),
                      symex_s=r.get("symex_s"), cbmc_wall_s=r.get("cbmc_wall_s"), ir_instructions=r.get("ir_instructions"),
                      validation_vectors_agree=r.get("validation_vectors_agree"), functions_made_noop=r.get("nooped"),
                      functions_cut_as_bound=r.get("cut"),
                      note=r.get("note", "")[:600]) for r in results],
        obligations=len(results),
        discharged=len(passed),
        checker_cmd=(results[0].get("checker_cmd", "") if results else ""),
        trusted_base=P.get("trusted_base", []) + ["tool/ir2c.py (LLVM IR -> C), validated per run on concrete vectors against the native build",
                                                   "models/models.c: " + ", ".join(externs)],
        traces_validated_against_impl=sum(r.get("validation_vectors_agree", 0) for r in results),
        validation_vectors_nontrivial=sum(r.get("validation_vectors_nontrivial", 0) for r in results),
        reachability_witnesses_confirmed=wit,
        functions_encoded=funcs,
        solver_seconds=round(sum(r.get("solver_s", 0) or 0 for r in results), 2),
        exhaustive=False,
        outside_claim=P.get("outside", ""),
    )
    ev = dict(property_id=prop, tier=tier, seed=seed, level=P.get("level", "model_checking"), coverage=cov,
              assumptions=P.get("assumptions", []), wall_s=round(wall, 2), violations=violations)
    if P.get("level") == "other":
        cov["explanation"] = P.get("explanation", "")
    json.dump(ev, open(os.path.join(ROOT, "evidence", prop + ".json"), "w"), indent=1)


if __name__ == "__main__":
    sys.exit(main())

"""Obligation registry: which harness entries decide which property, with the
bounds per tier.  Bounds here are what evidence reports; DESIGN.md section 4
explains each obligation."""

COMMON_TB = [
    "clang++-14 -O1 IR of the harness TU is the semantics of the real source (same headers/flags as the repository build except -O1 and access specifiers)",
    "CBMC 6.11 (SAT back end) decides each property for all inputs within the unwinding bounds (unwinding assertions on)",
    "allocation never fails (operator new/malloc assumed non-null)",
]

PROPS = {}


def T(quick=None, thorough=None):
    d = {}
    if quick is not None:
        d["quick"] = quick
    if thorough is not None:
        d["thorough"] = thorough
    return d


PROPS["C19"] = dict(
    title="Serialized objects round-trip exactly and malformed archives are rejected safely",
    level="model_checking",
    trusted_base=COMMON_TB,
    assumptions=["archive image length <= N bytes; <= K consecutive read operations",
                 "exception object construction (message text, backtrace capture) is not modelled"],
    outside="user classes with serialize(), json::value traits, session/cache convenience wrappers, archives longer than the bound",
    obligations=[
        dict(id="C19.a", harness="C19_archive.cpp", entry="h_c19a_reader_safety",
             desc="archive::next_chunk_size/read_chunk/read_chunk_as_string on arbitrary bytes: throws archive_error or stays inside the archive",
             tiers=T(quick=dict(defs=dict(VERIF_K=2, VERIF_N=24), unwind=40, timeout=600,
                                bounds="archive image of symbolic length 0..24 (heap block of exact size above 15), arbitrary bytes, 2 symbolic read operations"),
                     thorough=dict(defs=dict(VERIF_K=3, VERIF_N=40), unwind=56, timeout=1800,
                                   bounds="archive image of symbolic length 0..40, arbitrary bytes, 3 symbolic read operations"))),
        dict(id="C19.b", harness="C19_archive.cpp", entry="h_c19b_chunk_roundtrip",
             desc="write_chunk x k then read back (string or raw form chosen symbolically): identical bytes, eof() exact",
             tiers=T(quick=dict(defs=dict(VERIF_K=2), split=[[0, 1, 4], [0, 3, 4]], unwind=40, timeout=600, bounds="2 chunks, lengths from {0,1,4}x{0,3,4}, symbolic bytes"),
                     thorough=dict(defs=dict(VERIF_K=3), split=[[0, 1, 2, 3, 4]] * 3, unwind=40, timeout=1800, bounds="3 chunks, every length combination 0..4, symbolic bytes"))),
    ],
)

# properties for which no obligation can be built with this technique (reason required)
NOT_APPLICABLE = {}

"""Obligation registry: which harness entries decide which property, with the
bounds per tier.  Bounds here are what evidence reports; DESIGN.md section 4
explains each obligation."""

COMMON_TB = [
    "clang++-14 -O1 IR of the harness TU is the semantics of the real source (same headers/flags as the repository build except -O1 and access specifiers)",
    "CBMC 6.11 (SAT back end) decides each property for all inputs within the unwinding bounds (unwinding assertions on)",
    "allocation never fails (operator new/malloc assumed non-null)",
]

PROPS = {}
# std::string growth by reallocation (_M_mutate): cut = reaching it is a bound failure
STRING_REALLOC = "basic_stringIcSt11char_traitsIcESaIcEE9_M_mutateEmmPKcm"


def T(quick=None, thorough=None):
    d = {}
    if quick is not None:
        d["quick"] = quick
    if thorough is not None:
        d["thorough"] = thorough
    return d


PROPS["C19"] = dict(
    title="Serialized objects round-trip exactly and malformed archives are rejected safely",
    level="model_checking",
    trusted_base=COMMON_TB,
    assumptions=["archive image length <= N bytes; <= K consecutive read operations",
                 "exception object construction (message text, backtrace capture) is not modelled"],
    outside="user classes with serialize(), json::value traits, session/cache convenience wrappers, archives longer than the bound",
    obligations=[
        dict(id="C19.a", harness="C19_archive.cpp", entry="h_c19a_reader_safety",
             desc="archive::next_chunk_size/read_chunk/read_chunk_as_string on arbitrary bytes: throws archive_error or stays inside the archive",
             tiers=T(quick=dict(defs=dict(VERIF_K=2, VERIF_N=24), unwind=40, timeout=600,
                                bounds="archive image of symbolic length 0..24 (heap block of exact size above 15), arbitrary bytes, 2 symbolic read operations"),
                     thorough=dict(defs=dict(VERIF_K=3, VERIF_N=40), unwind=56, timeout=1800,
                                   bounds="archive image of symbolic length 0..40, arbitrary bytes, 3 symbolic read operations"))),
        dict(id="C19.b", harness="C19_archive.cpp", entry="h_c19b_chunk_roundtrip",
             desc="write_chunk x k then read back (string or raw form chosen symbolically): identical bytes, eof() exact",
             tiers=T(quick=dict(defs=dict(VERIF_K=2), split=[[0, 1, 4], [0, 3, 4]], unwind=40, timeout=600, bounds="2 chunks, lengths from {0,1,4}x{0,3,4}, symbolic bytes"),
                     thorough=dict(defs=dict(VERIF_K=3), split=[[0, 1, 2, 3, 4]] * 3, unwind=40, timeout=1800, bounds="3 chunks, every length combination 0..4, symbolic bytes"))),
    ],
)

PROPS["C14"] = dict(
    title="Text validators accept exactly the well-formed strings of their encoding",
    level="model_checking",
    trusted_base=COMMON_TB,
    assumptions=["string lengths up to the stated N; utf8::next reads at most 4 bytes so the 0..4-byte obligation is complete for one sequence"],
    outside="iconv/ICU fallback for code pages without a built-in validator; form.cpp widgets; strings longer than the bound",
    obligations=[
        dict(id="C14.a", harness="C14_validators.cpp", entry="h_c14a_next", ctors=False,
             desc="cppcms::utf8::next == independent RFC 3629 table on every buffer of 0..4 bytes, html and plain mode; never reads past the buffer",
             tiers=T(quick=dict(unwind=8, timeout=300, bounds="every byte buffer of length 0..4 (exact-size heap block), html in {0,1}"))),
        dict(id="C14.b", harness="C14_validators.cpp", entry="h_c14b_booster_decode", ctors=False,
             desc="booster utf_traits<char>::decode == RFC 3629 (illegal/incomplete distinguished) and agrees with utf8::next",
             tiers=T(quick=dict(unwind=8, timeout=300, bounds="every byte buffer of length 0..4"))),
        dict(id="C14.c", harness="C14_validators.cpp", entry="h_c14c_validate", ctors=False,
             desc="encoding::valid_utf8: valid <=> concatenation of legal HTML-safe sequences, count == code points",
             tiers=T(quick=dict(defs=dict(VERIF_N=5), unwind=8, timeout=600, bounds="every byte string of length 0..5"),
                     thorough=dict(defs=dict(VERIF_N=7), unwind=10, timeout=1800, bounds="every byte string of length 0..7"))),
        dict(id="C14.d", harness="C14_validators.cpp", entry="h_c14d_single_byte", ctors=False,
             desc="each of the 17 single-byte charset validators: per-byte verdict, printable ASCII accepted, C0/DEL rejected, C1 rejected by the ISO-8859 family, count == length",
             tiers=T(quick=dict(split=[list(range(17))], unwind=4, timeout=300, bounds="17 validators x every byte pair (x,y); strings of length 0,1,2"))),
        dict(id="C14.e", harness="C14_validators.cpp", entry="h_c14e_filter_utf8", ctors=False,
             desc="validate_or_filter_utf8: true => valid & output untouched; false => output valid by the reference predicate and not longer than the input",
             cut=[STRING_REALLOC],
             tiers=T(quick=dict(split=[[0, 1, 2, 3]], unwind="max(p0+2,4)", timeout=600, bounds="every byte string of length 0..3 (one solver instance per length), replacement 0 or printable; output string never reallocates (checked)"),
                     thorough=dict(split=[[0, 1, 2, 3, 4, 5]], unwind="max(p0+2,4)", timeout=3000, bounds="every byte string of length 0..5"))),
    ],
)

# properties for which no obligation can be built with this technique (reason required)
NOT_APPLICABLE = {}

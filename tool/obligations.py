"""Obligation registry: which harness entries decide which property, with the
bounds per tier.  Bounds here are what evidence reports; DESIGN.md section 4
explains each obligation."""

COMMON_TB = [
    "clang++-14 -O1 IR of the harness TU is the semantics of the real source (same headers/flags as the repository build except -O1 and access specifiers)",
    "CBMC 6.11 (SAT back end) decides each property for all inputs within the unwinding bounds (unwinding assertions on)",
    "allocation never fails (operator new/malloc assumed non-null)",
]

PROPS = {}
# std::string growth by reallocation (_M_mutate): cut = reaching it is a bound failure
STRING_REALLOC = "basic_stringIcSt11char_traitsIcESaIcEE9_M_mutateEmmPKcm"


def T(quick=None, thorough=None):
    d = {}
    if quick is not None:
        d["quick"] = quick
    if thorough is not None:
        d["thorough"] = thorough
    return d


PROPS["C19"] = dict(
    title="Serialized objects round-trip exactly and malformed archives are rejected safely",
    level="model_checking",
    trusted_base=COMMON_TB,
    assumptions=["archive image length <= N bytes; <= K consecutive read operations",
                 "exception object construction (message text, backtrace capture) is not modelled"],
    outside="user classes with serialize(), json::value traits, session/cache convenience wrappers, archives longer than the bound",
    obligations=[
        dict(id="C19.a", harness="C19_archive.cpp", entry="h_c19a_reader_safety",
             desc="archive::next_chunk_size/read_chunk/read_chunk_as_string on arbitrary bytes: throws archive_error or stays inside the archive",
             tiers=T(quick=dict(defs=dict(VERIF_K=2, VERIF_N=24), unwind=40, timeout=600,
                                bounds="archive image of symbolic length 0..24 (heap block of exact size above 15), arbitrary bytes, 2 symbolic read operations"),
                     thorough=dict(defs=dict(VERIF_K=3, VERIF_N=40), unwind=56, timeout=1800,
                                   bounds="archive image of symbolic length 0..40, arbitrary bytes, 3 symbolic read operations"))),
        dict(id="C19.b", harness="C19_archive.cpp", entry="h_c19b_chunk_roundtrip",
             desc="write_chunk x k then read back (string or raw form chosen symbolically): identical bytes, eof() exact",
             tiers=T(quick=dict(defs=dict(VERIF_K=2), split=[[0, 1, 4], [0, 3, 4]], unwind=40, timeout=600, bounds="2 chunks, lengths from {0,1,4}x{0,3,4}, symbolic bytes"),
                     thorough=dict(defs=dict(VERIF_K=3), split=[[0, 1, 2, 3, 4]] * 3, unwind=40, timeout=1800, bounds="3 chunks, every length combination 0..4, symbolic bytes"))),
        dict(id="C19.c", harness="C19_archive.cpp", entry="h_c19c_traits_roundtrip", cut=[STRING_REALLOC],
             desc="archive_traits<vector<int>>, <std::string>, <int>: load(save(x)) == x and the archive is fully consumed",
             tiers=T(quick=dict(split=[[0, 1, 2]], unwind=28, timeout=900, bounds="vector of 0..2 symbolic ints, string of 0..2 symbolic bytes, symbolic int"))),
        dict(id="C19.d1", harness="C19_archive.cpp", entry="h_c19d_vector_int", cut=[STRING_REALLOC],
             desc="archive_traits<std::vector<int>>::load on arbitrary bytes: throws or loads elements that fit in the archive; no access outside archive or vector storage",
             tiers=T(quick=dict(defs=dict(VERIF_N=18), unwind=28, timeout=900, bounds="archive image of symbolic length 0..18, arbitrary bytes"))),
        dict(id="C19.d2", harness="C19_archive.cpp", entry="h_c19d_vector_short", cut=[STRING_REALLOC],
             desc="archive_traits<std::vector<short>>::load on arbitrary bytes (same)",
             tiers=T(quick=dict(defs=dict(VERIF_N=18), unwind=28, timeout=900, bounds="archive image of symbolic length 0..18, arbitrary bytes"))),
        dict(id="C19.d3", harness="C19_archive.cpp", entry="h_c19d_string", cut=[STRING_REALLOC],
             desc="archive_traits<std::string>::load on arbitrary bytes (same)",
             tiers=T(quick=dict(defs=dict(VERIF_N=18), unwind=28, timeout=900, bounds="archive image of symbolic length 0..18, arbitrary bytes"))),
        dict(id="C19.f", harness="C19_archive.cpp", entry="h_c19f_list_arbitrary", cut=[STRING_REALLOC],
             desc="archive_traits<std::list<short>>::load (generic container path: untrusted 64-bit count, one chunk per element, insert_iterator) on arbitrary bytes: throws, or the list is exactly the stored elements in order; never outside the archive",
             tiers=T(quick=dict(defs=dict(VERIF_N=24), unwind=28, timeout=900, bounds="archive image of symbolic length 0..24, arbitrary bytes (up to 2 elements)"))),
        dict(id="C19.g", harness="C19_archive.cpp", entry="h_c19g_container_roundtrip", cut=[STRING_REALLOC],
             desc="generic container path, std::pair and T[n] traits: load(save(x)) == x, previous content replaced, archive fully consumed",
             tiers=T(quick=dict(split=[[0, 1, 2]], unwind=28, timeout=900, bounds="list of 0..2 symbolic shorts, pair<int,unsigned char>, long long[2]"))),
    ],
)

PROPS["C14"] = dict(
    title="Text validators accept exactly the well-formed strings of their encoding",
    level="model_checking",
    trusted_base=COMMON_TB,
    assumptions=["string lengths up to the stated N; utf8::next reads at most 4 bytes so the 0..4-byte obligation is complete for one sequence"],
    outside="iconv/ICU fallback for code pages without a built-in validator; form.cpp widgets; strings longer than the bound",
    obligations=[
        dict(id="C14.a", harness="C14_validators.cpp", entry="h_c14a_next", ctors=False,
             desc="cppcms::utf8::next == independent RFC 3629 table on every buffer of 0..4 bytes, html and plain mode; never reads past the buffer",
             tiers=T(quick=dict(unwind=8, timeout=300, bounds="every byte buffer of length 0..4 (exact-size heap block), html in {0,1}"))),
        dict(id="C14.b", harness="C14_validators.cpp", entry="h_c14b_booster_decode", ctors=False,
             desc="booster utf_traits<char>::decode == RFC 3629 (illegal/incomplete distinguished) and agrees with utf8::next",
             tiers=T(quick=dict(unwind=8, timeout=300, bounds="every byte buffer of length 0..4"))),
        dict(id="C14.c", harness="C14_validators.cpp", entry="h_c14c_validate", ctors=False,
             desc="encoding::valid_utf8: valid <=> concatenation of legal HTML-safe sequences, count == code points",
             tiers=T(quick=dict(defs=dict(VERIF_N=5), unwind=8, timeout=600, bounds="every byte string of length 0..5"),
                     thorough=dict(defs=dict(VERIF_N=7), unwind=10, timeout=1800, bounds="every byte string of length 0..7"))),
        dict(id="C14.d", harness="C14_validators.cpp", entry="h_c14d_single_byte", ctors=False,
             desc="each of the 17 single-byte charset validators: per-byte verdict, printable ASCII accepted, C0/DEL rejected, C1 rejected by the ISO-8859 family, count == length",
             tiers=T(quick=dict(split=[list(range(17))], unwind=4, timeout=300, bounds="17 validators x every byte pair (x,y); strings of length 0,1,2"))),
        dict(id="C14.e", harness="C14_validators.cpp", entry="h_c14e_filter_utf8", ctors=False,
             desc="validate_or_filter_utf8: true => valid & output untouched; false => output valid by the reference predicate and not longer than the input",
             cut=[STRING_REALLOC],
             tiers=T(quick=dict(split=[[0, 1, 2, 3]], unwind="max(p0+2,4)", timeout=600, bounds="every byte string of length 0..3 (one solver instance per length), replacement 0 or printable; output string never reallocates (checked)"),
                     thorough=dict(split=[[0, 1, 2, 3, 4, 5]], unwind="max(p0+2,4)", timeout=3000, bounds="every byte string of length 0..5"))),
        dict(id="C14.f", harness="C14_validators.cpp", entry="h_c14f_filter_single_byte", ctors=False, cut=[STRING_REALLOC],
             desc="validate_or_filter_single_byte_charset: verdict <=> every byte valid; otherwise output = input with each invalid byte replaced (dropped for replacement 0), order kept",
             tiers=T(quick=dict(split=[[0, 1, 6, 9, 16], [0, 1, 2, 3]], unwind=8, timeout=600, bounds="5 of the 17 validators (ascii, iso-8859-1 family, iso-8859-11, windows-1252, koi8) x every byte string of length 0..3, every replacement byte"),
                     thorough=dict(split=[list(range(17)), [0, 1, 2, 3]], unwind=8, timeout=1800, bounds="17 validators x every byte string of length 0..3"))),
        dict(id="C14.g", harness="C14_validators.cpp", entry="h_c14g_name_comparator", ctors=False,
             desc="encodings_comparator (validator dispatch order) == lexicographic order of the names reduced to lower-case alphanumerics; asymmetric; equivalent only for equal normalised names",
             tiers=T(quick=dict(split=[[0, 1, 3], [0, 2, 3]], unwind=8, timeout=600, bounds="every pair of names with lengths in {0,1,3} x {0,2,3}, arbitrary non-NUL bytes"))),
    ],
)

PROPS["C15"] = dict(
    title="HTML escaping neutralises all markup; URL and base64 codecs are exact inverses",
    level="model_checking",
    trusted_base=COMMON_TB + ["std::locale constructor/destructor are no-ops (streambuf base class)", "sscanf(\"%x\") model: hex parse of <=8 digits"],
    assumptions=["input lengths enumerated per solver instance up to the stated N, contents symbolic"],
    outside="template filters (filters.cpp) and form widget rendering route through the same functions but are not encoded; ostream overloads (failbit path) only via the streambuf overload they call",
    obligations=[
        dict(id="C15.a", harness="C15_codecs.cpp", entry="h_c15a_escape_streambuf", ctors=False,
             desc="util::escape(b,e,streambuf&): no raw < > \" ' or bare &, reference un-escape == input; failing sink => -1",
             tiers=T(quick=dict(split=[[0, 1, 2]], unwind="6*p0+3", timeout=600, bounds="every input of length 0..2, sink failing after any number of bytes"),
                     thorough=dict(split=[[0, 1, 2, 3, 4]], unwind="6*p0+3", timeout=3000, bounds="every input of length 0..4"))),
        dict(id="C15.a2", harness="C15_codecs.cpp", entry="h_c15a_escape_string", ctors=False, cut=[STRING_REALLOC],
             desc="util::escape(std::string) produces the same bytes as the streambuf overload",
             tiers=T(quick=dict(split=[[0, 1, 2]], unwind=20, timeout=600, bounds="every input of length 0..2 (result fits the initial string capacity, checked)"))),
        dict(id="C15.b", harness="C15_codecs.cpp", entry="h_c15b_urlencode", ctors=False, cut=[STRING_REALLOC],
             desc="util::urlencode(b,e,streambuf&): alphabet unreserved + %xx, decodes to the input; util::urldecode inverts it",
             tiers=T(quick=dict(split=[[0, 1, 2, 3, 4]], unwind=20, timeout=600, bounds="every input of length 0..4"),
                     thorough=dict(split=[[0, 1, 2, 3, 4, 5]], unwind=24, timeout=1800, bounds="every input of length 0..5"))),
        dict(id="C15.b2", harness="C15_codecs.cpp", entry="h_c15b_urldecode_safety", ctors=False, cut=[STRING_REALLOC],
             desc="util::urldecode on arbitrary bytes stays inside [begin,end) and yields <= n bytes",
             tiers=T(quick=dict(split=[[0, 1, 2, 3, 4, 5, 6]], unwind=12, timeout=600, bounds="every byte string of length 0..6 (exact-size heap block)"),
                     thorough=dict(split=[list(range(0, 10))], unwind=14, timeout=1800, bounds="every byte string of length 0..9"))),
        dict(id="C15.c", harness="C15_codecs.cpp", entry="h_c15c_sizes", ctors=False,
             desc="b64url::encoded_size == ceil(4s/3), decoded_size inverse, -1 exactly for s%4==1",
             tiers=T(quick=dict(unwind=2, timeout=600, bounds="every size s < 2^30"))),
        dict(id="C15.d", harness="C15_codecs.cpp", entry="h_c15d_b64_roundtrip", ctors=False,
             desc="b64url::encode/decode (pointer forms), exact-size buffers: RFC 4648 base64url value, exactly encoded_size/decoded_size bytes written, decode(encode(x)) == x",
             tiers=T(quick=dict(split=[list(range(0, 8))], unwind=16, timeout=600, bounds="every input of length 0..7"),
                     thorough=dict(split=[list(range(0, 13))], unwind=24, timeout=1800, bounds="every input of length 0..12"))),
        dict(id="C15.d2", harness="C15_codecs.cpp", entry="h_c15d_b64_decode_safety", ctors=False,
             desc="b64url::decode on arbitrary bytes of acceptable length stays inside both exact-size buffers; string overload rejects length = 1 mod 4",
             tiers=T(quick=dict(split=[list(range(0, 10))], unwind=16, timeout=600, bounds="every byte string of length 0..9"))),
        dict(id="C15.e", harness="C15_streams.cpp", entry="h_c15e_b64_ostream", ctors=False,
             desc="b64url::encode(begin,end,std::ostream&) writes byte for byte what the pointer form (C15.d) writes, real std::ostream::write over a recording streambuf",
             tiers=T(quick=dict(split=[list(range(0, 8))], unwind=16, timeout=600, bounds="every input of length 0..7"),
                     thorough=dict(split=[list(range(0, 14))], unwind=24, timeout=1800, bounds="every input of length 0..13"))),
        dict(id="C15.f", harness="C15_streams.cpp", entry="h_c15f_escape_ostream", ctors=False, big_alloc=288,
             desc="util::escape(begin,end,std::ostream&) == the streambuf form (C15.a); failbit <=> the sink failed; a failed stream is not written to",
             tiers=T(quick=dict(split=[[0, 1], [0, 1, 2]], unwind="6*p0+3", timeout=600, bounds="every input of length 0..1 x {accepting sink, stream failed beforehand, sink that accepts nothing} (length 2 needed 24 GB)"))),
        dict(id="C15.g", harness="C15_streams.cpp", entry="h_c15g_urlencode_forms", ctors=False, cut=[STRING_REALLOC],
             desc="util::urlencode(b,e,std::ostream&) (ostream_iterator / operator<<) and util::urlencode(std::string) == the streambuf form (C15.b)",
             tiers=T(quick=dict(split=[[0, 1, 2, 3]], unwind=20, timeout=600, bounds="every input of length 0..3"))),
    ],
)

PROPS["C13"] = dict(
    title="The built-in file server never serves anything outside its document roots",
    level="model_checking",
    trusted_base=COMMON_TB,
    assumptions=["request paths contain no NUL byte (they arrive as C strings from the CGI environment)"],
    outside="symlink resolution (realpath, kernel), stat/S_IFREG, directory listing output, percent-decoding (C15.b2), Windows separators",
    obligations=[
        dict(id="C13.a", harness="C13_fileserver.cpp", entry="h_c13a_normalize", ctors=False, cut=[STRING_REALLOC],
             desc="file_server::normalize_path == independent stack normaliser ('.', '..', '//' resolved, never above '/')",
             tiers=T(quick=dict(split=[list(range(0, 7))], unwind="p0+3", timeout=600, bounds="every path of length 0..6 (arbitrary non-NUL bytes)"))),
        dict(id="C13.a2", harness="C13_fileserver.cpp", entry="h_c13a_normalize", ctors=False, cut=[STRING_REALLOC],
             desc="normalize_path == reference normaliser on longer paths over the alphabet {'/', '.', 'a', 'b'} (the function only distinguishes '/', '.' and other bytes)",
             tiers=T(quick=dict(defs=dict(VERIF_ALPHABET=1), split=[[8, 9]], unwind="p0+3", timeout=900, bounds="every path of length 8..9 over {/,.,a,b} starting with '/'"))),
        dict(id="C13.b", harness="C13_fileserver.cpp", entry="h_c13b_is_file_prefix", ctors=False,
             desc="is_file_prefix(prefix,full) <=> prefix is a whole-component prefix of full",
             tiers=T(quick=dict(split=[[0, 1, 2, 3], [0, 1, 2, 3, 4, 5]], unwind=8, timeout=600, bounds="every prefix of length 0..3 x every path of length 0..5"))),
    ],
)

PROPS["C18"] = dict(
    title="A crash while saving a file-backed session never yields a corrupted session",
    level="model_checking",
    trusted_base=COMMON_TB + ["crash model of the property: the 16-byte header reaches the disk as a unit, every data byte independently old/new (or arbitrary beyond the old length)",
                              "zlib crc32 replaced by an ideal (collision-free on <=6 strings) checksum: models/stubs_crc_ideal.c"],
    assumptions=["no CRC-32 collision between the torn image and a saved value (inherent 2^-32 strength of the guard, not decided here)",
                 "write/read/lseek/time are the harness' disk-image model"],
    outside="fcntl locking and the inode re-check loop, real fsync/sector behaviour, directory scan of gc (only its timestamp rule), vector<char>(size) allocation for absurd sizes in a corrupted header",
    obligations=[
        dict(id="C18.a", harness="C18_filestorage.cpp", entry="h_c18a_torn_write", ctors=False, clang_flags=["-fno-inline"], big_alloc=72, models=["stubs_crc_ideal.c"], cut=[STRING_REALLOC],
             desc="save_to_file/write_all then read_from_file/read_all on every torn image: no session, or exactly the old, or exactly the new (timeout,data)",
             tiers=T(quick=dict(split=[[0, 2, 3], [0, 1, 3], [0, 1], [0, 1], [0, 1, 2, 3]], unwind=26, unwindset={"F__ZN6cppcms8sessions20session_file_storage8read_allEiPvi.0": 4, "F__ZN6cppcms8sessions20session_file_storage9write_allEiPKvi.0": 3}, timeout=900, bounds="old data length in {0,2,3} x new length in {0,1,3} x {no old file, old file}; symbolic bytes, timeouts, clock, per-byte crash mask; header old/new and crash length enumerated"),
                     thorough=dict(split=[[0, 2, 3, 4], [0, 1, 3, 4], [0, 1], [0, 1], [0, 1, 2, 3, 4]], unwind=26, unwindset={"F__ZN6cppcms8sessions20session_file_storage8read_allEiPvi.0": 4, "F__ZN6cppcms8sessions20session_file_storage9write_allEiPKvi.0": 3}, timeout=3000, bounds="old data length in {0,2,3,4} x new data length in {0,1,3,4}; crash length 0..4; per-byte old/new mask; which header survived"))),
        dict(id="C18.b", harness="C18_filestorage.cpp", entry="h_c18b_short_io", ctors=False, clang_flags=["-fno-inline"], big_alloc=72, models=["stubs_crc_ideal.c"], cut=[STRING_REALLOC],
             desc="completed save with arbitrary partial write counts, load with arbitrary partial read counts (on the payload requests, <= 3 bytes): the saved value or no session",
             tiers=T(quick=dict(split=[[0, 1, 2, 3]], unwind=20, unwindset={"F__ZN6cppcms8sessions20session_file_storage8read_allEiPvi.0": 7, "F__ZN6cppcms8sessions20session_file_storage9write_allEiPKvi.0": 6}, timeout=900, bounds="data length 0..3, every partial count per payload read/write call"))),
        dict(id="C18.c", harness="C18_filestorage.cpp", entry="h_c18c_timestamp", ctors=False, clang_flags=["-fno-inline"],
             desc="read_timestamp <=> 8-byte timestamp readable and >= now (gc/load never remove a live session on this rule)",
             tiers=T(quick=dict(unwind=14, timeout=600, bounds="file length 0..12, arbitrary bytes, arbitrary clock"))),
        dict(id="C18.d", harness="C18_large.cpp", entry="h_c18d_crc_feed", ctors=False, clang_flags=["-fno-inline"],
             desc="crc32_calc::process_bytes over two arbitrary ranges of any length < 2^31 (zlib crc32 = chained recorder): every byte fed exactly once in order, state threaded through, checksum() = last state",
             tiers=T(quick=dict(unwind=4, timeout=300, bounds="2 ranges, every length < 2^31 and offset; at most 3 zlib calls per range"))),
        dict(id="C18.d2", harness="C18_large.cpp", entry="h_c18d_save_large", ctors=False, clang_flags=["-fno-inline"],
             desc="save_to_file with a payload of any length < 2^31 (crc32/write = recorders, complete writes): 16-byte header {timeout, crc over exactly the payload, length} first, then exactly the payload",
             tiers=T(quick=dict(unwind=18, timeout=300, bounds="every payload length < 2^31 (bytes not materialised), every timeout; at most 3 zlib calls / 3 writes per request"))),
    ],
)

PROPS["C16"] = dict(
    title="Digests, HMAC and CBC ciphers compute the standard functions for all inputs",
    level="model_checking",
    trusted_base=COMMON_TB + ["MD5 / SHA-1 compression functions replaced by recorders (models/stubs_c16.c): only buffering, padding, length encoding and chunking are decided",
                              "HMAC checked over a recording digest with block size 8 and digest size 4 (crypto::hmac is generic in both)"],
    assumptions=["message lengths enumerated around every block boundary up to 130 bytes, two appends with 6 split choices; contents symbolic"],
    outside="the compression functions themselves (no SAT verdict in 240 s on any back end, see DESIGN.md), SHA-2/AES (OpenSSL in this build), bundled-vs-library agreement, CBC",
    obligations=[
        dict(id="C16.a", harness="C16_digests.cpp", entry="h_c16a_md5_padding", ctors=False, clang_flags=["-fno-inline"], drop=["md5_process"], roots=["verif_record_block"], models=["stubs_c16.c"],
             desc="md5_init/append/finish hand the compression function exactly the RFC 1321 padded blocks for every split into two appends",
             tiers=T(quick=dict(split=[list(range(18)), [0, 2, 3, 5]], unwind=140, timeout=600, bounds="message length in {0,1,2,54..57,63..65,118..121,127..130} x 4 split points; symbolic content"),
                     thorough=dict(split=[list(range(18)), [0, 1, 2, 3, 4, 5]], unwind=140, timeout=1200, bounds="same lengths x 6 split points"))),
        dict(id="C16.b", harness="C16_digests.cpp", entry="h_c16b_sha1_padding", ctors=False, clang_flags=["-fno-inline"], drop=["sha113process_blockEv"], roots=["verif_record_block"], models=["stubs_c16.c"],
             desc="sha1::process_bytes/get_digest hand the compression function exactly the FIPS 180 padded blocks (big-endian length)",
             tiers=T(quick=dict(split=[list(range(18)), [0, 2, 3, 5]], unwind=140, timeout=600, bounds="message length in {0,1,2,54..57,63..65,118..121,127..130} x 4 split points; symbolic content"),
                     thorough=dict(split=[list(range(18)), [0, 1, 2, 3, 4, 5]], unwind=140, timeout=1200, bounds="same lengths x 6 split points"))),
        dict(id="C16.c", harness="C16_digests.cpp", entry="h_c16c_hmac_schedule", ctors=False, clang_flags=["-fno-inline"],
             desc="crypto::hmac init/append/readout: inner = (K' xor 0x36)||msg, outer = (K' xor 0x5c)||inner digest, K' = key or digest(key) zero padded; object re-primed after each readout (two messages)",
             tiers=T(quick=dict(split=[[0, 1, 7, 8, 9, 12], [0, 1, 5]], unwind=70, timeout=600, bounds="key length in {0,1,7,8,9,12} (block 8) x message length in {0,1,5}; symbolic key, message and digests"))),
        dict(id="C16.e", harness="C16_digests.cpp", entry="h_c16e_key_hex", ctors=False, clang_flags=["-fno-inline"],
             desc="crypto::key::set_hex accepts exactly even-length hexadecimal strings; bytes are the hex pairs",
             tiers=T(quick=dict(split=[[0, 1, 2, 3, 4, 6]], unwind=100, timeout=600, bounds="every string of length 0,1,2,3,4,6"))),
    ],
)

PROPS["C06"] = dict(
    title="Session state carries over between requests exactly, never after it ended",
    level="model_checking",
    trusted_base=COMMON_TB + ["session_interface cookie accessors, session_storage backend, urandom_device and time() are harness stubs (recorded / arbitrary)"],
    assumptions=["cookie lengths enumerated around 33; cookie bytes, clock, stored deadline and presence symbolic"],
    outside="session_interface::save/load (cookie objects, update_exposed), expiration-mode arithmetic, dual storage switching, memory/file/tcp storages, unpredictability of the random identifier",
    obligations=[
        dict(id="C06.b", harness="C06_sessions.cpp", entry="h_c06b_valid_sid", ctors=False, cut=[STRING_REALLOC],
             desc="session_sid::valid_sid accepts exactly I[0-9a-f]{32} and extracts the 32 digits",
             tiers=T(quick=dict(split=[[0, 1, 32, 33, 34]], unwind=40, timeout=600, bounds="every cookie of length 0,1,32,33,34 (arbitrary bytes)"))),
        dict(id="C06.b2", harness="C06_sessions.cpp", entry="h_c06b_sid_ops", ctors=False, cut=[STRING_REALLOC],
             desc="session_sid::load/save/clear: storage is only ever addressed with 32 lowercase hex digits; expired entries are removed and reported absent; new data retires the old id and uses a fresh one; cookie = 'I'+id",
             tiers=T(quick=dict(split=[[0, 33, 34], [0, 1, 2]], unwind=40, timeout=900, bounds="cookie length in {0,33,34} x {load, save, clear}; cookie bytes, clock, stored deadline/presence, random bytes symbolic"))),
    ],
)

STREAMBUF_BASE = "_ZNSt15basic_streambufIcSt11char_traitsIcEE(6xsputn|5uflow|6xsgetn|9underflow|8overflow|9pbackfail|9showmanyc|4sync|7seekoff|7seekpos|6setbuf|5imbue)"
PROPS["C12"] = dict(
    title="Uploaded form data is reconstructed exactly under any chunking, within limits",
    level="model_checking",
    trusted_base=COMMON_TB + ["cppcms::http::file is a stub (raw storage; name/filename/mime recorded; write_data() returns a recording stream): models/stubs_httpfile.c + harness",
                              "std::istream::seekg is a no-op; std::locale facets are null"],
    assumptions=["boundary keys consist of RFC 2046 bchars (no CR); the matcher step obligation is inductive: the pending-prefix state q and the chunk are arbitrary"],
    outside="part-header grammar (process_header is cut in the matcher obligation), declared-length accounting in request::on_content_progress, urlencoded bodies (C15.b2 covers the decoder), temp-file spill-over (file_buffer: harness/C12_filebuffer.cpp exists but exhausted 30 GB at 3 bytes), content filters",
    obligations=[
        dict(id="C12.a", harness="C12_multipart.cpp", entry="h_c12a_matcher_step", ctors=False, models=["stubs_httpfile.c"],
             noop=["_ZNSi5seekgE"], cut=["multipart_parser14process_header"],
             desc="multipart_parser::consume in the part-content state, one inductive step: from any pending prefix length q and for any chunk, the sink receives exactly the stream minus the pending delimiter prefix, the part completes exactly at the first delimiter, position_ is the longest suffix/prefix overlap",
             tiers=T(quick=dict(defs=dict(VERIF_NK=1), split=[[0, 1, 2, 3, 4], [1, 2, 3, 4]], unwind=12, unwindset={"F__ZN6cppcms4impl16multipart_parser7consumeERPKcS3_.0": "p1+2", "F__ZN6cppcms4impl16multipart_parser7consumeERPKcS3_.1": "p1+2"}, timeout=900, bounds="delimiter CRLF--k (k any bchar); pending prefix q in 0..4; chunk of 1..4 arbitrary bytes"),
                     thorough=dict(defs=dict(VERIF_NK=1), split=[[0, 1, 2, 3, 4], [1, 2, 3, 4, 5]], unwind=12, unwindset={"F__ZN6cppcms4impl16multipart_parser7consumeERPKcS3_.0": "p1+2", "F__ZN6cppcms4impl16multipart_parser7consumeERPKcS3_.1": "p1+2"}, timeout=3000, bounds="delimiter CRLF--k (k any bchar); pending prefix q in 0..4; chunk of 1..5 arbitrary bytes"))),
        dict(id="C12.a-k2", harness="C12_multipart.cpp", entry="h_c12a_matcher_step", ctors=False, models=["stubs_httpfile.c"],
             noop=["_ZNSi5seekgE"], cut=["multipart_parser14process_header"],
             desc="the same inductive matcher step for a two-character boundary key (delimiter of 6 bytes, more look-alike prefixes)",
             tiers=T(quick=dict(defs=dict(VERIF_NK=2), split=[[0, 3, 5], [2, 4]], unwind=12, unwindset={"F__ZN6cppcms4impl16multipart_parser7consumeERPKcS3_.0": "p1+2", "F__ZN6cppcms4impl16multipart_parser7consumeERPKcS3_.1": "p1+2"}, timeout=900, bounds="delimiter CRLF--k1k2; pending prefix q in {0,3,5}; chunk of 2 or 4 arbitrary bytes"))),
    ],
)

RBTREE_ERASE = "_Rb_tree.*8_M_eraseEPSt13_Rb_tree_node"
PROPS["C10"] = dict(
    title="Networked cache with local L1 never serves data another node replaced",
    level="model_checking",
    trusted_base=COMMON_TB + ["session object is raw storage with data_in_/hin_/hout_/cache_ constructed; the backend cache is a recording stub",
                              "std::_Rb_tree rebalancing modelled as an unbalanced BST (models.c); recursive node destruction of std::set is skipped (leak)",
                              "allocations above 2^20 bytes raise std::bad_alloc"],
    assumptions=["payload size enumerated (small), header fields and payload bytes symbolic"],
    outside="client encoder (tcp_cache_client), key spreading over several servers, trigger sets inside L1, sockets and timeouts",
    obligations=[
        dict(id="C10.a", harness="C10_tcpcache.cpp", entry="h_c10a_fetch_reply", ctors=False, cut=[STRING_REALLOC], noop=[RBTREE_ERASE],
             desc="session::fetch: 'uptodate' only for a revalidation request presenting the entry's current generation; otherwise exactly the backend's value/generation/deadline; miss => no_data (the primitive the L1 coherence rests on)",
             tiers=T(quick=dict(split=[[0, 2], [0, 2]], unwind=8, timeout=900, bounds="key length in {0,2} x value length in {0,2}; bytes, generations, flags, deadline symbolic"))),
        dict(id="C10.c", harness="C10_l1.cpp", entry="h_c10c_l1_coherence", ctors=False, clang_flags=["-fno-inline"], nvec=0, replay="generated",
             drop=["_ZN6cppcms4impl13cache_over_ip3tcpEv"], roots=["verif_tcp_object"], models=["stubs_c10c.c"], cut=[STRING_REALLOC], noop=[RBTREE_ERASE],
             desc="cache_over_ip::fetch/store/clear with a local L1 against an abstract server (generation increases on every store; other nodes mutate the server directly): every fetch returns the value current on the server or misses -- never a stale L1 copy",
             tiers=T(quick=dict(defs=dict(VERIF_K=3), split=[[0, 1]], unwind=8, unwindset={"verif_memset.0": 60}, timeout=1200, bounds="1 key, with and without L1, every history of 3 operations from {fetch, store, other-node store, other-node invalidate, clear}; values and initial generation symbolic"),
                     thorough=dict(defs=dict(VERIF_K=4), split=[[0, 1]], unwind=8, unwindset={"verif_memset.0": 60}, timeout=3000, bounds="histories of 4 operations"))),
        dict(id="C10.b0", harness="C10_tcpcache.cpp", entry="h_c10b_store_validation", ctors=False, clang_flags=["-fno-inline"],
             drop=["19_M_replace_dispatchIN9__gnu_cxx17__normal_iteratorIPcSt6vectorIcS3_EEEEERS4_NS7_IPKcS4_EESF_T_SG_St12__false_type"],
             roots=["verif_passed_validation"], models=["stubs_c10.c"], noop=[RBTREE_ERASE],
             desc="session::store frame validation: execution gets past the check only if key_len+data_len+triggers_len == size without 32-bit wrap-around and key_len != 0 (probe at the first use of the lengths)",
             tiers=T(quick=dict(split=[[0, 2, 16]], unwind=20, timeout=600, bounds="payload size in {0,2,16}; arbitrary 32-bit key_len, data_len, triggers_len"))),
    ],
)

SCGI_WALK = "F__ZN6cppcms4impl3cgi4scgi21on_headers_chunk_readERKSt10error_codemRKN7booster8callbackIFvS5_EEE.0"
PROPS["C02"] = dict(
    title="No request, however malformed, crashes the service or disturbs other requests",
    level="model_checking",
    trusted_base=COMMON_TB + ["scgi connection object is raw storage with buffer_/sep_/pool_ constructed (string_pool page size 48 instead of 2048); string_map::add is a recorder (models/stubs_c02.c)",
                              "request::_data limits and content-type classification are symbolic"],
    assumptions=["preconditions established by scgi::on_first_read (buffer size > 16, sep_ < 16, buffer_[sep_] == 0) are assumed for the header walk"],
    outside="event-loop survival, isolation between connections, 'handler called at most once' across the whole service, HTTP and FastCGI front ends' framing (see C01), sockets",
    obligations=[
        dict(id="C02.e", mem_gb=13, harness="C02_scgi.cpp", entry="h_c02e_scgi_walk_safety", ctors=False, clang_flags=["-fno-inline"],
             drop=["_ZN6cppcms4impl10string_map3addEPKcS3_"], roots=["verif_env_add"], models=["stubs_c02.c"],
             desc="scgi::on_headers_chunk_read on an arbitrary header block: never reads outside buffer_, completion handler called exactly once",
             tiers=T(quick=dict(split=[[1, 2]], unwind=20, unwindset={SCGI_WALK: "p0+2", "X_strlen.0": "p0+3", "verif_memcpy.0": "p0+3"}, timeout=900, bounds="17-byte netstring, walked region of 1..2 arbitrary bytes (3 bytes: thorough tier; that instance needs > 13 GB and several minutes alone)"),
                     thorough=dict(split=[[1, 2, 3]], unwind=20, unwindset={SCGI_WALK: "p0+2", "X_strlen.0": "p0+3", "verif_memcpy.0": "p0+3"}, timeout=1800, bounds="17-byte netstring, walked region of 1..3 arbitrary bytes"))),
        dict(id="C02.g", mem_gb=13, harness="C02_request.cpp", entry="h_c02g_content_start", ctors=False, models=["stubs_httpfile.c"],
             noop=["multipart_parserC[12]E", "multipart_parser16set_content_type"],
             desc="request::on_content_start for an arbitrary 64-bit declared length: returns 0/400/413, never throws, allocates exactly the declared length and only within the configured limit; a negative length is refused",
             tiers=T(quick=dict(unwind=52, timeout=900, bounds="content_length: any 64-bit value; limits 0..16 bytes; content-type class and filter kind symbolic"))),
    ],
)

PROPS["C01"] = dict(
    title="Every front-end delivers the request the peer sent, however it is segmented",
    level="model_checking",
    trusted_base=COMMON_TB + ["connection objects are raw storage with the buffers and the string pool constructed (page size 48); string_map::add is a recorder"],
    assumptions=["names and values contain no NUL byte (they become C strings)"],
    outside="HTTP header tokenizer and request line (std::stack/std::string state machine: no verdict within budget), FastCGI record reassembly, cross-front-end equivalence, keep-alive sequencing, cookies and form fields (urldecode: C15), socket layer",
    obligations=[
        dict(id="C01.c", mem_gb=13, harness="C01_fastcgi.cpp", entry="h_c01c_fcgi_roundtrip", ctors=False, clang_flags=["-fno-inline"],
             drop=["_ZN6cppcms4impl10string_map3addEPKcS3_"], roots=["verif_env_add"], models=["stubs_c02.c"],
             desc="fastcgi::parse_pairs/read_len: decoding the FastCGI name-value encoding (1-byte and 4-byte length forms, chosen symbolically per field) returns exactly the encoded pairs in order",
             tiers=T(quick=dict(split=[[1, 2], [0, 1]], unwind=22, unwindset={"F__ZN6cppcms4impl3cgi7fastcgi11parse_pairsEv.0": 4, "verif_memcpy.0": 5, "F__ZN6cppcms4impl11string_pool3addEPKcm.0": 4, "F__ZL15cstrlen_boundedPKh.0": 5}, timeout=900, bounds="first pair: name length in {1,2}, value length in {0,1}, symbolic bytes; second pair fixed; each of 4 length fields in either form"))),
        dict(id="C01.d", harness="C01_fastcgi.cpp", entry="h_c01d_record_reassembly", ctors=False, clang_flags=["-fno-inline"],
             desc="fastcgi::non_blocking_read_record: a record is taken from the read cache only when header, content and padding are all present; exactly the content is appended to body_, padding skipped, cursors stay inside the cache; otherwise nothing changes (also C02: no access outside cache_)",
             tiers=T(quick=dict(split=[[0, 2]], unwind=20, timeout=900, bounds="16-byte cache with arbitrary bytes and arbitrary cursors 0<=start<=end<=16; 0 or 2 bytes already in body_"))),
        dict(id="C01.d2", harness="C01_fastcgi.cpp", entry="h_c01d_async_body", ctors=False, clang_flags=["-fno-inline"],
             desc="fastcgi::on_body_read (asynchronous record path): after a record's body arrived, body_ = previously accumulated bytes + this record's content, padding stripped exactly; handler called once",
             tiers=T(quick=dict(split=[[0, 3]], unwind=20, timeout=600, bounds="0 or 3 bytes accumulated before; content 0..4, padding 0..7, bytes symbolic"))),
        dict(id="C01.e", mem_gb=13, harness="C02_scgi.cpp", entry="h_c01e_scgi_pairs", ctors=False, clang_flags=["-fno-inline"],
             drop=["_ZN6cppcms4impl10string_map3addEPKcS3_"], roots=["verif_env_add"], models=["stubs_c02.c"],
             desc="scgi::on_headers_chunk_read: a well-formed netstring header block delivers exactly its NUL-separated pairs, in order",
             tiers=T(quick=dict(split=[[1, 2], [0, 1]], unwind=22, unwindset={SCGI_WALK: 5, "X_strlen.0": 5, "verif_memcpy.0": 5, "F__ZL15cstrlen_boundedPKh.0": 5}, timeout=900, bounds="first pair: name length in {1,2}, value length in {0,1}, symbolic bytes; second pair fixed"))),
        dict(id="C01.f", harness="C01_http_parser.cpp", entry="h_c01f_byte_source", ctors=False, big_alloc=520,
             desc="http parser byte source parser::getc/ungetc (vector form used by the embedded HTTP server and pointer form): next byte as 0..255, -1 exactly at exhaustion, a byte given back is returned next, across the buffer clear",
             tiers=T(quick=dict(split=[[0, 1, 2], [0, 1]], unwind=8, unwindset={"verif_memset.0": 100, "verif_memcpy.0": 100, "verif_memmove.0": 100}, timeout=600, bounds="buffers of 0..2 arbitrary bytes, both buffer forms, every sequence of 4 getc/ungetc operations"))),
    ],
)
PROPS["C02"]["obligations"].append(
        dict(id="C02.d", harness="C01_fastcgi.cpp", entry="h_c01d_record_reassembly", ctors=False, clang_flags=["-fno-inline"],
             desc="fastcgi::non_blocking_read_record on an arbitrary read cache: never reads outside cache_, cursors never cross, a record is consumed only when fully present (same obligation as C01.d, claimed here for memory safety)",
             tiers=T(quick=dict(split=[[0, 2]], unwind=20, timeout=900, bounds="16-byte cache with arbitrary bytes and arbitrary cursors; 0 or 2 bytes already in body_"))))
PROPS["C02"]["obligations"].append(
        dict(id="C02.c", mem_gb=13, harness="C01_fastcgi.cpp", entry="h_c02c_fcgi_safety", ctors=False, clang_flags=["-fno-inline"],
             drop=["_ZN6cppcms4impl10string_map3addEPKcS3_"], roots=["verif_env_add"], models=["stubs_c02.c"],
             desc="fastcgi::parse_pairs on an arbitrary params body never reads outside body_ (length fields up to 2^31 included)",
             tiers=T(quick=dict(split=[[0, 1, 2, 4, 6]], unwind=12, unwindset={"F__ZN6cppcms4impl3cgi7fastcgi11parse_pairsEv.0": "p0+2"}, timeout=900, bounds="every body of length 0,1,2,4,6 (exact-size heap block)"))))

PROPS["C03"] = dict(
    title="The client receives exactly the bytes the application wrote, once and in order",
    level="model_checking",
    trusted_base=COMMON_TB,
    assumptions=["buffer_impl::add is executed with vec_'s storage pre-sized to 8 chunks (models/stubs_c03.c): libstdc++ vector growth is not the subject",
                 "chunk sizes <= 2^40 (no size_t overflow of the byte total)"],
    outside="connection::nonblocking_write / async_write loops, chunked HTTP framing, gzip, copy_buf / cache copy, SCGI/HTTP output paths, "
            "std::ostream formatting of headers, socket layer; fastcgi::format_output (harness h_c03c_fcgi_framing kept: 240 000 symex steps, > 28 GB for one application write)",
    obligations=[
        dict(id="C03.a", harness="C03_fastcgi_out.cpp", entry="h_c03a_advance", ctors=False, clang_flags=["-fno-inline"],
             drop=["11buffer_implIPKcE3addES3_m"], roots=["verif_buffer_add"], models=["stubs_c03.c"], replay="generated", max_alloc=128, cbmc_defs=["VERIF_NO_CHK"],
             desc="booster::aio::details::advance(buf,n) (pending output after a short write) == the bytes of buf after the first n, chunk by chunk",
             tiers=T(quick=dict(split=[[0, 1, 2, 3]], unwind=6, unwindset={"verif_memmove.0": 70, "verif_memmove.1": 70, "verif_memcpy.0": 70, "verif_memset.0": 70}, timeout=900, bounds="gather lists of 0..3 chunks, every chunk size 1..2^40 and address, every n (64 bit)"))),
        dict(id="C03.b", harness="C03_fastcgi_out.cpp", entry="h_c03b_gather", ctors=False, clang_flags=["-fno-inline"], max_alloc=128, cbmc_defs=["VERIF_NO_CHK"],
             desc="booster::aio::buffer_impl add/get/bytes_count (real code incl. vector growth): the gather list is exactly the non-empty chunks added, in order",
             tiers=T(quick=dict(split=[[0, 1, 2, 3]], unwind=6, unwindset={"verif_memmove.0": 70, "verif_memmove.1": 70, "verif_memcpy.0": 70, "verif_memset.0": 70}, timeout=900, bounds="0..3 add() calls, every size 0..2^40, every chunk address (offsets 0..2^44 from one base: adjacent, overlapping, equal, out of order)"))),
    ],
)

PROPS["C04"] = dict(
    title="XSS filter output contains only white-listed markup and is stable",
    level="model_checking",
    trusted_base=COMMON_TB,
    assumptions=["strtol is the C library's (modelled for bases 10/16 incl. whitespace, sign, 0x prefix, saturation)",
                 "a tag part handed to parse_part contains no '>' before its last byte and an entity part no ';' before its last byte (both established by C04.a)"],
    outside="rule tables (std::map/std::set lookups, regex functors), validate_nesting, validate_entry_by_rules, output assembly in validate_and_filter_if_invalid, "
            "character-set filtering before tokenising (C14), stability of filter(filter(x)), parts longer than the stated bounds",
    obligations=[
        dict(id="C04.a", harness="C04_xss.cpp", entry="h_c04a_split", ctors=False, clang_flags=["-fno-inline"],
             drop=["5entryESaIS3_EE9push_backEOS3_"], noop=["5entryESaIS3_EE7reserveEm", "5entryESaIS3_EE5clearEv"], roots=["verif_record_part"], models=["stubs_c04a.c"],
             desc="split_to_parts tiles the input; no '<' '>' '&' inside a plain-text part or a comment body; tag/entity parts end at their first '>' / ';'",
             tiers=T(quick=dict(split=[list(range(0, 8))], unwind="p0+2", unwindset={"verif_memset.0": 100, "verif_memcpy.0": 100}, timeout=900, bounds="every input of length 0..7 (arbitrary bytes)"),
                     thorough=dict(split=[list(range(0, 11))], unwind="p0+2", unwindset={"verif_memset.0": 100, "verif_memcpy.0": 100}, timeout=3000, bounds="every input of length 0..10"))),
        dict(id="C04.b", harness="C04_xss.cpp", entry="h_c04b_parse_tag", ctors=False, drop=["23validate_property_value"], models=["stubs_c04b.c"], cut=["13property_data.*17_M_realloc_insert"],
             desc="parse_part on <...>: every byte of an accepted tag is tag name, property name, '=', matching quotes, a checked value, space or the closing '/'",
             tiers=T(quick=dict(split=[list(range(0, 8))], unwind="p0+2", unwindset={"X_strlen.0": 8, "X_memcmp.0": 8, "verif_memset.0": 40}, timeout=900, bounds="every tag part with 0..7 content bytes (no '>')"),
                     thorough=dict(split=[list(range(0, 9))], unwind="p0+2", unwindset={"X_strlen.0": 8, "X_memcmp.0": 8, "verif_memset.0": 40}, timeout=3000, bounds="every tag part with 0..8 content bytes"))),
        dict(id="C04.c", harness="C04_xss.cpp", entry="h_c04c_property_value", ctors=False, clang_flags=["-fbuiltin"],
             desc="validate_property_value(v) <=> v has no '<' '>' and every '&' starts &amp; &lt; &gt; &quot; &apos; &#x27; &#X27; &#39;",
             tiers=T(quick=dict(split=[list(range(0, 9))], unwind="p0+3", unwindset={"X_strlen.0": 8, "X_memcmp.0": 8}, timeout=600, bounds="every value of length 0..8"),
                     thorough=dict(split=[list(range(0, 15))], unwind="p0+3", unwindset={"X_strlen.0": 8, "X_memcmp.0": 8}, timeout=3000, bounds="every value of length 0..14"))),
        dict(id="C04.d", harness="C04_xss.cpp", entry="h_c04d_parse_entity", ctors=False, models=["stubs_c04.c"],
             desc="parse_part on &...;: accepted => &alnum+; or &#digits; / &#xhex; denoting a legal character (<= U+10FFFF, no C0/C1 control, no U+FFFE/FFFF)",
             tiers=T(quick=dict(split=[list(range(0, 8)) + [11, 12]], unwind="p0+4", timeout=600, bounds="every entity part with 0..7 and with 11..12 content bytes (no ';'): numeric references beyond 32 bits included"),
                     thorough=dict(split=[list(range(0, 11))], unwind="p0+4", timeout=3000, bounds="every entity part with 0..10 content bytes"))),
        dict(id="C04.e", harness="C04_xss.cpp", entry="h_c04e_uri", ctors=False,
             desc="uri_parser::parse: accepted => only RFC 3986 characters, '&' only as &amp;/&apos;, and a leading scheme: is exactly the range given to the scheme check (never accepted as relative)",
             tiers=T(quick=dict(split=[[0, 1, 2]], unwind="p0+1", unwindset={"X_strlen.0": 8, "X_memcmp.0": 8}, timeout=900, bounds="every attribute value of length 0..2 (the recursive-descent parser costs 5 GB at length 2 and > 14 GB at 3)"))),
        dict(id="C04.e2", harness="C04_xss.cpp", entry="h_c04e_uri", ctors=False, cbmc_defs=["VERIF_NO_CHK"],
             desc="uri_parser::parse: accepted => only RFC 3986 characters, '&' only as &amp;/&apos;, and a leading scheme: is exactly the range given to the scheme check (never accepted as relative)",
             tiers=T(quick=dict(split=[[3, 4]], unwind="p0+1", unwindset={"X_strlen.0": 8, "X_memcmp.0": 8}, timeout=900, bounds="every attribute value of length 3..4; exact heap-size check off (functional claim only)"),
                     thorough=dict(split=[[3, 4, 5]], unwind="p0+1", unwindset={"X_strlen.0": 8, "X_memcmp.0": 8}, timeout=3000, bounds="every attribute value of length 3..5; exact heap-size check off (functional claim only)"))),
    ],
)

PROPS["C05"] = dict(
    title="Client-side sessions are accepted only if issued by this server and unexpired",
    level="model_checking",
    trusted_base=COMMON_TB + ["crypto::hmac and crypto::key are an opaque MAC model defined in the harness (append records, readout returns an arbitrary digest of D bytes); MAC unforgeability is an assumption",
                              "native replay of these obligations runs the gcc build of the translated real code plus the MAC model (the native library build has the real HMAC)"],
    assumptions=["digest size D = 4 (quick) / 16 (thorough): hmac_cipher is generic in it"],
    outside="AES-CBC and HMAC themselves (opaque models), aes_factory key derivation, session_pool configuration, the digests themselves (C16), confidentiality properties, cross-key transplant",
    obligations=[
        dict(id="C05.a", harness="C05_hmac_cipher.cpp", entry="h_c05a_decrypt", ctors=False, cut=[STRING_REALLOC], nvec=0, replay="generated",
             desc="hmac_cipher::decrypt: true <=> length >= D and ALL D tag bytes equal the MAC computed over exactly the preceding bytes; plain == those bytes; rejected input leaves the output untouched",
             tiers=T(quick=dict(defs=dict(VERIF_D=4), split=[[0, 3, 4, 5, 7]], unwind=12, timeout=600, bounds="D=4; every cipher text of length 0,3,4,5,7; arbitrary digest"),
                     thorough=dict(defs=dict(VERIF_D=16), split=[[0, 15, 16, 17, 20]], unwind=26, timeout=1800, bounds="D=16; cipher text lengths 0,15,16,17,20"))),
        dict(id="C05.a2", harness="C05_hmac_cipher.cpp", entry="h_c05a_roundtrip", ctors=False, cut=[STRING_REALLOC], nvec=0, replay="generated",
             desc="hmac_cipher: encrypt emits message || MAC(message); decrypt(encrypt(p)) == p for a functional MAC",
             tiers=T(quick=dict(defs=dict(VERIF_D=4), split=[[0, 1, 3]], unwind=12, timeout=600, bounds="D=4; every payload of length 0,1,3"))),
        dict(id="C05.b", harness="C05_aes_cipher.cpp", entry="h_c05b_aes_decrypt", ctors=False, cut=[STRING_REALLOC], nvec=0, replay="generated",
             desc="aes_cipher::decrypt (real framing code + real hmac_cipher::equal; block cipher, hash and HMAC are opaque recorded models): rejects ill-sized bodies, MAC over exactly the cipher text and checked on all tag bytes before anything is decrypted, inner length <= available, payload = exactly the bytes after the length field; a well-formed authenticated body is accepted",
             tiers=T(quick=dict(split=[[0, 7, 8, 11, 12, 13, 16, 20]], unwind=26, timeout=900, bounds="model digest 4 bytes, block 4 bytes; every cookie body of length 0,7,8,11,12,13,16,20; arbitrary digest and decrypted bytes"))),
        dict(id="C05.b2", harness="C05_aes_cipher.cpp", entry="h_c05b_aes_roundtrip", ctors=False, cut=[STRING_REALLOC], nvec=0, replay="generated",
             desc="aes_cipher::encrypt emits E(IV block | length | payload | padding) || MAC(cipher text) and decrypt(encrypt(p)) == p for every payload length (decrypt model = inverse of the recorded encryption, MAC functional)",
             tiers=T(quick=dict(split=[[0, 1, 3, 4, 5, 8]], unwind=30, timeout=900, bounds="model digest 4 bytes, block 4 bytes; every payload of length 0,1,3,4,5,8 (with and without padding)"))),
        dict(id="C05.c", harness="C05_session_cookies.cpp", entry="h_c05c_cookie_load", ctors=False, cut=[STRING_REALLOC], nvec=0, replay="generated",
             desc="session_cookies::load (real code + real b64url::decode; encryptor = opaque model): true <=> 'C' + well-framed base64url, accepted by the cipher, >= 8 bytes, deadline >= now; returns exactly the deadline and the bytes after it; every refused non-empty cookie is cleared, outputs untouched",
             tiers=T(quick=dict(split=[[0, 1, 2, 5, 6], [0, 7, 8, 10]], unwind=16, timeout=900, bounds="cookie text of length 0,1,2,5,6 (arbitrary bytes) x decrypted text of length 0,7,8,10 (arbitrary bytes), arbitrary clock and cipher verdict"))),
        dict(id="C05.c2", harness="C05_session_cookies.cpp", entry="h_c05c_cookie_save", ctors=False, cut=[STRING_REALLOC], nvec=0, replay="generated",
             desc="session_cookies::save: refuses on_server data; otherwise the cipher gets deadline || data once and the cookie is 'C' + base64url(cipher text)",
             tiers=T(quick=dict(split=[[0, 1, 3]], unwind=16, unwindset={"X_strlen.0": 100, "verif_memcpy.0": 100}, timeout=900, bounds="data of length 0,1,3; arbitrary deadline; 6-byte model cipher text"))),
        dict(id="C05.e", harness="C15_codecs.cpp", entry="h_c15d_b64_decode_safety", ctors=False,
             desc="cookie framing: b64url::decode (string form used by session_cookies::load) rejects a length = 1 mod 4 by returning false (no exception), and never leaves its buffers for other lengths",
             tiers=T(quick=dict(split=[[0, 1, 2, 4, 5, 9]], unwind=16, timeout=600, bounds="every byte string of length 0,1,2,4,5,9"))),
        dict(id="C05.d", harness="C05_hmac_cipher.cpp", entry="h_c05d_key_guard", ctors=False, nvec=0, replay="generated",
             desc="hmac_cipher constructor refuses exactly the keys shorter than 16 bytes",
             tiers=T(quick=dict(unwind=90, timeout=600, bounds="every 64-bit key size"))),
    ],
)

PROPS["C20"] = dict(
    title="URL routing is deterministic, whole-string, and consistent with URL generation",
    level="model_checking",
    trusted_base=COMMON_TB + ["PCRE is a library: pcre_compile/pcre_fullinfo/pcre_exec are recording stubs with arbitrary (oracle-table) verdicts; that PCRE honours (?:p)\\z with PCRE_ANCHORED is assumed",
                              "replay of counterexamples on the gcc build of the translated code + stubs"],
    assumptions=["patterns of length <= 3 (arbitrary non-NUL bytes) for the anchoring contract"],
    outside="url_dispatcher first-match order (shared_ptr/std::function/vector of options: out of memory at 2 options), url_mapper round trip, applications_pool mount order, the regex language itself",
    obligations=[
        dict(id="C20.a", harness="C20_regex.cpp", entry="h_c20a_anchoring", ctors=False, cut=[STRING_REALLOC], nvec=0, replay="generated",
             desc="booster::regex::assign compiles p and exactly (?:p)\\z with the same flags; match() asks PCRE about the anchored form with PCRE_ANCHORED over the whole range; match(marks) additionally requires ovector[0]==0 and ovector[1]==length and copies the ovector pairs",
             tiers=T(quick=dict(split=[[0, 1, 3]], unwind=44, timeout=900, bounds="every pattern of length 0,1,3; PCRE verdict, ovector, capture count 0..2 arbitrary; subject length 0..3"))),
        dict(id="C20.c", harness="C20_regex.cpp", entry="h_c20c_mount_point", ctors=False, cut=[STRING_REALLOC], nvec=0, replay="generated",
             desc="mount_point::match: success <=> every configured pattern (host / script name / path info) matches its whole string; returns the selected string",
             tiers=T(quick=dict(split=[[0, 1, 2, 4, 7], [0, 1]], unwind=44, timeout=900, bounds="pattern presence masks {0,1,2,4,7} x selection {script name, path info}; match oracle arbitrary; group 0"))),
    ],
)

PROPS["C11"] = dict(
    title="JSON parsing accepts exactly well-formed documents; serialization round-trips",
    level="model_checking",
    trusted_base=COMMON_TB + ["json::value::number() is a stub returning a symbolic double (C11.c); double->integer conversions follow the x86-64 results (cvttsd2si 'integer indefinite'), as the shipped binary does",
                              "CBMC's bit-precise IEEE-754 model"],
    assumptions=["strings of length <= 2 for the writer (escapes fit the reserved capacity; checked)"],
    outside="the parser (tockenizer over std::istream, parse_stream), numbers' text form (locale, precision), object key uniqueness, nesting bound, value variant",
    obligations=[
        dict(id="C11.b", harness="C11_tojson.cpp", entry="h_c11b_to_json", ctors=False, cut=[STRING_REALLOC],
             desc="json::to_json(begin,end): quoted, no raw byte <= 0x1F, no unescaped quote/backslash; an independent decoder of the escapes returns the input",
             tiers=T(quick=dict(split=[[0, 1, 2]], unwind=20, timeout=900, bounds="every byte string of length 0..2"))),
        dict(id="C11.c", harness="C11_json.cpp", entry="h_c11c_typed_get", ctors=False,
             desc="json::traits<T>::get for T in {signed/unsigned char, short, unsigned short, int, unsigned, long long, unsigned long long}: returns exactly the stored double iff it is integral and in range, otherwise throws bad_value_cast",
             tiers=T(quick=dict(split=[list(range(8))], unwind=30, timeout=900, bounds="every IEEE-754 double (NaN, infinities included) x 8 integer types"))),
    ],
)

PROPS["C17"] = dict(
    title="Every scheduled handler runs exactly once: posts, timers, I/O waits, pool jobs",
    level="other",
    explanation=("No thread is run. impl::thread_pool keeps all shared state behind one mutex, so its behaviours are the orders of its critical sections; "
                 "these are explored symbolically as operation sequences (post / cancel / 'a worker runs until it would block'), with pthread mutex and "
                 "std::condition_variable replaced by ghost stubs that also check lock balance and that jobs run with the mutex released. The solver (CBMC/SAT) "
                 "decides every assertion for all sequences of K operations and all choices of which jobs throw. Real thread timing, the event loop "
                 "(io_service posts, timers, I/O readiness) and the pthread primitives themselves are not covered."),
    trusted_base=COMMON_TB + ["pthread_mutex_lock/unlock and std::condition_variable are ghost stubs (models/stubs_c17.c); wait() = 'nothing further happens, the pool is stopped'",
                              "booster::log is disabled (should_be_logged == false)"],
    assumptions=["behaviours of the pool = interleavings of its critical sections (all shared state is accessed under mutex_); this is argued, not checked, in DESIGN.md"],
    outside="booster::aio event loop: posted handlers, timers, descriptor readiness, cancellation codes; real schedules; thread creation/join",
    obligations=[
        dict(id="C17.b", harness="C17_thread_pool.cpp", entry="h_c17b_exactly_once", ctors=False, clang_flags=["-fno-inline"], nvec=0, replay="generated",
             roots=["verif_cond_wait"], models=["stubs_c17.c"],
             desc="impl::thread_pool post/cancel/worker: every job runs at most once; a successfully cancelled job never runs; cancel succeeds iff the job is still queued; when a worker blocks every queued job has run exactly once even if jobs throw; jobs run with the mutex released; the mutex is balanced",
             tiers=T(quick=dict(defs=dict(VERIF_K=3), unwind=6, unwindset={"verif_memset.0": 70, "verif_memcpy.0": 40, "X_strlen.0": 40}, timeout=1200, bounds="every sequence of 3 operations from {post, cancel(any 32-bit id), worker-drain}; which jobs throw is symbolic"),
                     thorough=dict(defs=dict(VERIF_K=4), unwind=7, unwindset={"verif_memset.0": 70, "verif_memcpy.0": 40, "X_strlen.0": 40}, timeout=3000, bounds="every sequence of 4 operations"))),
        dict(id="C17.c", harness="C17_thread_pool.cpp", entry="h_c17c_stop", ctors=False, clang_flags=["-fno-inline"], nvec=0, replay="generated",
             roots=["verif_cond_wait"], models=["stubs_c17.c"],
             desc="impl::thread_pool: distinct job ids; a stopped pool runs nothing; a running pool runs each queued job exactly once and none twice",
             tiers=T(quick=dict(defs=dict(VERIF_K=2), unwind=6, unwindset={"verif_memset.0": 70, "verif_memcpy.0": 40, "X_strlen.0": 40}, timeout=900, bounds="2 jobs (throwing or not), stop flag symbolic, two worker runs"))),
    ],
)

# properties for which no obligation can be built with this technique (reason required)
NOT_APPLICABLE = {
    "C07": "mem_cache (hash map + three intrusive lists + multimap of deadlines + trigger index) is beyond the heap sizes CBMC handled on IR-derived C here; the simpler buddy allocator already failed (DESIGN.md section 8)",
    "C08": "buddy allocator harness (typed arena) did not finish symbolic execution in 600 s for two operations (recursive page_alloc over pointer-linked free lists in one arena object); the LRU/limit logic lives in mem_cache, see C07",
    "C09": "real thread interleavings are not explorable with this technique (CBMC's concurrency support on IR-derived C++ with heap containers does not scale to two operations); a lock-discipline argument as used for C17 would need the mem_cache encoding that C07 lacks",
}

#!/bin/sh
# run every registered property at a tier; usage: tool/run_all.sh [quick|thorough] [props...]
TIER=${1:-quick}; shift
cd "$(dirname "$0")/.."
PROPS=${*:-$(python3 -c "import sys; sys.path.insert(0,'tool'); import obligations as O; print(' '.join(sorted(O.PROPS)))")}
rc=0
for p in $PROPS; do
  echo "=== $p ($TIER)"
  bin/check $p --tier $TIER 2>&1 | grep -E "^\[|VIOLATION|KNOWN-FINDING|^$p |^  " | cut -c1-400
  r=$?
done

/* zlib crc32() replaced by an *ideal checksum*: an arbitrary function of the
 * byte string that is injective on the (at most 6) strings it is applied to in
 * one scenario.  This is the stated assumption "no CRC-32 collision between the
 * torn image and a saved value" (DESIGN.md C18); CRC-32 itself is linear and a
 * solver finds collisions as soon as more than 32 bits differ. */
#include "verif_rt.h"
#define CRC_SLOTS 6
#define CRC_MAXLEN 8
static uint8_t crc_in[CRC_SLOTS][CRC_MAXLEN];
static uint32_t crc_len[CRC_SLOTS];
static uint32_t crc_out[CRC_SLOTS];
static uint32_t crc_used = 0;
#ifndef __CPROVER__
/* concrete validation build: the real bitwise CRC-32 stands in for the ideal checksum */
static uint32_t nondet_raw_u32(void) { return 0; }
uint64_t X_crc32(uint64_t crc, void *buf, uint32_t len) {
  const uint8_t *p = (const uint8_t *)buf; uint32_t c = ~(uint32_t)crc;
  for (uint32_t i = 0; i < len; i++) { c ^= p[i]; for (int k = 0; k < 8; k++) c = (c >> 1) ^ (0xEDB88320u & (0u - (c & 1u))); }
  return (uint32_t)~c;
}
#define X_crc32 X_crc32_unused
#else
uint32_t nondet_raw_u32(void);
#endif
uint64_t X_crc32(uint64_t crc, void *buf, uint32_t len) {
  __CPROVER_assert(crc == 0, "model: crc32 continued from a non-zero state");
  __CPROVER_assert(len <= CRC_MAXLEN, "allocation bound: crc32 input longer than the model's slots (unwinding assertion)");
  __CPROVER_assume(len <= CRC_MAXLEN);
  const uint8_t *p = (const uint8_t *)buf;
  for (uint32_t s = 0; s < CRC_SLOTS; s++) {
    if (s >= crc_used) break;
    if (crc_len[s] != len) continue;
    _Bool same = 1;
    for (uint32_t i = 0; i < CRC_MAXLEN; i++) if (i < len && crc_in[s][i] != p[i]) same = 0;
    if (same) return crc_out[s];
  }
  __CPROVER_assert(crc_used < CRC_SLOTS, "allocation bound: more crc32 calls than model slots (unwinding assertion)");
  __CPROVER_assume(crc_used < CRC_SLOTS);
  uint32_t v = nondet_raw_u32();
  for (uint32_t s = 0; s < CRC_SLOTS; s++) if (s < crc_used) __CPROVER_assume(crc_out[s] != v);
  crc_len[crc_used] = len;
  for (uint32_t i = 0; i < CRC_MAXLEN; i++) crc_in[crc_used][i] = i < len ? p[i] : 0;
  crc_out[crc_used] = v;
  crc_used++;
  return v;
}

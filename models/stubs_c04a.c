/* C04.a: std::vector<entry>::push_back(entry&&) is replaced by a recorder that hands the pushed
 * entry's (begin, end, type) -- offsets 0, 8, 16 of cppcms::xss::{anon}::entry -- to the harness
 * (verif_record_part, defined in the harness TU).  clear()/reserve() of that vector are no-ops. */
#include "verif_rt.h"
void F_verif_record_part(uint8_t *b, uint8_t *e, uint32_t t);
void X__ZNSt6vectorIN6cppcms3xss12_GLOBAL__N_15entryESaIS3_EE9push_backEOS3_(void *vec, void *ent) {
  (void)vec;
  uint8_t *p = (uint8_t *)ent;
  F_verif_record_part(*(uint8_t **)p, *(uint8_t **)(p + 8), *(uint32_t *)(p + 16));
}

/* C16: the MD5 / SHA-1 compression functions are replaced by recorders that hand
 * the 64-byte block to the harness (verif_record_block, defined in the harness TU).
 * Their own correctness is outside the claim (see DESIGN.md C16.d). */
#include "verif_rt.h"
void F_verif_record_block(uint8_t *b);
/* static void cppcms::impl::md5_process(md5_state_t*, const md5_byte_t*) */
void X__ZN6cppcms4implL11md5_processEPNS0_11md5_state_sEPKh(void *pms, void *data) { (void)pms; F_verif_record_block((uint8_t *)data); }
/* void cppcms::impl::sha1::process_block(): block_ is at offset 20 (after h_[5]) */
void X__ZN6cppcms4impl4sha113process_blockEv(void *self) { F_verif_record_block((uint8_t *)self + 20); }

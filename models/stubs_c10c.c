/* C10.c: cache_over_ip::tcp() (thread-specific lazily created connector) returns the harness'
 * abstract server connection. */
#include "verif_rt.h"
void *F_verif_tcp_object(void);
void *X__ZN6cppcms4impl13cache_over_ip3tcpEv(void *self) { (void)self; return F_verif_tcp_object(); }

/* C04.b: validate_property_value is replaced by its specification (no '<' '>' and every '&' starts one
 * of the eight allowed references) -- the equivalence of the real function with this specification is
 * what C04.c decides on its own; composing the two keeps the tag harness within reach. */
#include "verif_rt.h"
#define AT(k, c) (b[i + (k)] == (uint8_t)(c))
_Bool X__ZN6cppcms3xss12_GLOBAL__N_123validate_property_valueEPKcS3_(uint8_t *b, uint8_t *e) {
  uint64_t n = (uint64_t)(e - b);
  if (n) verif_chk(b, n);
  for (uint64_t i = 0; i < n; i++) {
    if (b[i] == '<' || b[i] == '>') return 0;
    if (b[i] != '&') continue;
    uint64_t m = n - i;
    _Bool ok = (m >= 4 && AT(2, 't') && AT(3, ';') && (AT(1, 'l') || AT(1, 'g')))
            || (m >= 5 && AT(1, 'a') && AT(2, 'm') && AT(3, 'p') && AT(4, ';'))
            || (m >= 5 && AT(1, '#') && AT(2, '3') && AT(3, '9') && AT(4, ';'))
            || (m >= 6 && AT(1, 'q') && AT(2, 'u') && AT(3, 'o') && AT(4, 't') && AT(5, ';'))
            || (m >= 6 && AT(1, 'a') && AT(2, 'p') && AT(3, 'o') && AT(4, 's') && AT(5, ';'))
            || (m >= 6 && AT(1, '#') && (AT(2, 'x') || AT(2, 'X')) && AT(3, '2') && AT(4, '7') && AT(5, ';'));
    if (!ok) return 0;
  }
  return 1;
}

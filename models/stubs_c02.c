/* C02/C01 (SCGI header walk): string_map::add is replaced by a recorder in the harness
 * (the hash table itself is not the subject; the pairs handed to it are). */
#include "verif_rt.h"
void F_verif_env_add(uint8_t *k, uint8_t *v);
void X__ZN6cppcms4impl10string_map3addEPKcS3_(void *self, void *k, void *v) { (void)self; F_verif_env_add((uint8_t *)k, (uint8_t *)v); }

/* C03: booster::aio::buffer_impl<char const*>::add(ptr,size) is forwarded to verif_buffer_add in the
 * harness TU (harness/C03_fastcgi_out.cpp): the same function with vec_'s storage pre-sized to 8
 * chunks, so that libstdc++'s vector growth is not executed.  See the comment there. */
#include "verif_rt.h"
void F_verif_buffer_add(void *self, uint8_t *p, uint64_t s);
void X__ZN7booster3aio11buffer_implIPKcE3addES3_m(void *self, uint8_t *p, uint64_t s) { F_verif_buffer_add(self, p, s); }

/* cppcms::http::file constructor/destructor (src/http_file.cpp: fstream, stringstream members)
 * are not part of the multipart parser; the object is raw storage and the
 * harness supplies the member functions the parser calls. */
#include "verif_rt.h"
void X__ZN6cppcms4http4fileC1Ev(void *t) { (void)t; }
void X__ZN6cppcms4http4fileD1Ev(void *t) { (void)t; }
void X__ZN6cppcms4http4fileC2Ev(void *t) { (void)t; }
void X__ZN6cppcms4http4fileD2Ev(void *t) { (void)t; }

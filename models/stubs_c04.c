/* C04: strtol as used by parse_html_entity (bases 10 and 16 on text already checked to be all
   digits): whitespace, sign and 0x prefix handled as in C, overflow saturates to LONG_MAX. */
#include "verif_rt.h"
uint64_t X_strtol(void *s, void *endp, uint32_t base) {
  uint8_t *p = (uint8_t *)s;
  __CPROVER_assert(base == 10 || base == 16, "model: strtol base other than 10/16");
  for (;;) { verif_chk(p, 1); if (!(*p == ' ' || (*p >= 9 && *p <= 13))) break; p++; }
  int neg = 0;
  if (*p == '-' || *p == '+') { neg = *p == '-'; p++; verif_chk(p, 1); }
  if (base == 16 && p[0] == '0') { verif_chk(p + 1, 1); if (p[1] == 'x' || p[1] == 'X') { verif_chk(p + 2, 1); uint8_t c = p[2]; if ((c >= '0' && c <= '9') || ((c | 0x20) >= 'a' && (c | 0x20) <= 'f')) p += 2; } }
  uint64_t v = 0; int any = 0, ovf = 0;
  uint8_t *start = p;
  for (;; p++) {
    verif_chk(p, 1);
    uint8_t c = *p; uint32_t d;
    if (c >= '0' && c <= '9') d = c - '0';
    else if (base == 16 && (c | 0x20) >= 'a' && (c | 0x20) <= 'f') d = (c | 0x20) - 'a' + 10;
    else break;
    any = 1;
    if (v > (0x7fffffffffffffffULL - d) / base) ovf = 1; else v = v * base + d;
  }
  if (endp) *(void **)endp = any ? (void *)p : s;
  (void)start;
  if (ovf) return neg ? 0x8000000000000000ULL : 0x7fffffffffffffffULL;
  return neg ? (uint64_t)(-(int64_t)v) : v;
}

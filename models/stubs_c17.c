/* C17: pthread mutex and std::condition_variable are ghost stubs: a lock counter (checked for
 * balance and for "job runs unlocked" by the harness) and a wait() that hands control to the
 * harness (which models "no further event: the pool is being stopped"). Harnesses are single
 * threaded; interleavings are explored at critical-section granularity by the harness' step loop. */
#include "verif_rt.h"
int verif_lock_depth = 0;
void F_verif_cond_wait(void);
uint32_t X_pthread_mutex_lock(void *m) { (void)m; __CPROVER_assert(verif_lock_depth == 0, "mutex locked twice (self deadlock)"); verif_lock_depth++; return 0; }
uint32_t X_pthread_mutex_unlock(void *m) { (void)m; __CPROVER_assert(verif_lock_depth == 1, "mutex unlocked while not held"); verif_lock_depth--; return 0; }
void X__ZNSt18condition_variableC1Ev(void *t) { (void)t; }
void X__ZNSt18condition_variableD1Ev(void *t) { (void)t; }
void X__ZNSt18condition_variable10notify_oneEv(void *t) { (void)t; }
void X__ZNSt18condition_variable10notify_allEv(void *t) { (void)t; }
void X__ZNSt18condition_variable4waitERSt11unique_lockISt5mutexE(void *t, void *l) {
  (void)t; (void)l;
  __CPROVER_assert(verif_lock_depth == 1, "condition wait without holding the mutex");
  verif_lock_depth--;            /* wait releases ... */
  F_verif_cond_wait();
  verif_lock_depth++;            /* ... and re-acquires */
}
uint32_t F_verif_lock_depth(void) { return (uint32_t)verif_lock_depth; }

/* C10.b probe: the first library call session::store() makes after its frame validation
 * (std::string::assign(iterator,iterator) -> _M_replace_dispatch) is replaced by a probe that
 * tells the harness "validation passed" and ends the path. */
#include "verif_rt.h"
void F_verif_passed_validation(void);
void *X__ZNSt7__cxx1112basic_stringIcSt11char_traitsIcESaIcEE19_M_replace_dispatchIN9__gnu_cxx17__normal_iteratorIPcSt6vectorIcS3_EEEEERS4_NS7_IPKcS4_EESF_T_SG_St12__false_type(void *self, void *a, void *b, void *c, void *d) {
  (void)self; (void)a; (void)b; (void)c; (void)d;
  F_verif_passed_validation();
  __CPROVER_assume(0);
  return self;
}

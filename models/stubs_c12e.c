/* C12.e: stdio over a small in-memory "temporary file" (the upload spill-over file). */
#include "verif_rt.h"
#define TF_CAP 16
static uint8_t tf_data[TF_CAP]; static uint64_t tf_len, tf_pos; static uint64_t tf_handle[2];
void *X_fopen(void *name, void *mode) { (void)name; (void)mode; tf_len = 0; tf_pos = 0; return tf_handle; }
void *X_fopen64(void *name, void *mode) { return X_fopen(name, mode); }
uint32_t X_fclose(void *f) { (void)f; return 0; }
uint32_t X_fflush(void *f) { (void)f; return 0; }
uint32_t X_fseek(void *f, uint64_t off, uint32_t whence) { (void)f; if (whence == 2) tf_pos = tf_len + off; else if (whence == 0) tf_pos = off; else tf_pos += off; return 0; }
uint32_t X_fseeko(void *f, uint64_t off, uint32_t whence) { return X_fseek(f, off, whence); }
uint32_t X_fseeko64(void *f, uint64_t off, uint32_t whence) { return X_fseek(f, off, whence); }
uint64_t X_fwrite(void *p, uint64_t sz, uint64_t n, void *f) {
  (void)f; uint64_t total = sz * n; const uint8_t *s = (const uint8_t *)p;
  __CPROVER_assert(tf_pos + total <= TF_CAP, "allocation bound: temporary file model capacity (unwinding assertion)");
  __CPROVER_assume(tf_pos + total <= TF_CAP);
  for (uint64_t i = 0; i < TF_CAP; i++) if (i < total) tf_data[tf_pos + i] = s[i];
  tf_pos += total; if (tf_pos > tf_len) tf_len = tf_pos;
  return n;
}
uint64_t X_fread(void *p, uint64_t sz, uint64_t n, void *f) {
  (void)f; uint64_t want = sz * n; uint64_t avail = tf_len > tf_pos ? tf_len - tf_pos : 0; uint64_t k = want < avail ? want : avail;
  uint8_t *d = (uint8_t *)p;
  for (uint64_t i = 0; i < TF_CAP; i++) if (i < k) d[i] = tf_data[tf_pos + i];
  tf_pos += k;
  return sz ? k / sz : 0;
}
